#!/bin/sh
# offline setup: pure-python oracle deps beside the repository's interpreter
HERE="$(cd "$(dirname "$0")" && pwd)"
mkdir -p "$HERE/.jaxcache" "$HERE/evidence" "$HERE/replays"
if [ ! -d "$HERE/.deps/mpmath" ] || [ ! -d "$HERE/.deps/jsonschema" ]; then
  PIP_NO_INDEX=1 /venv/bin/pip install -q --no-index --find-links /opt/veriftools/wheels \
    --target "$HERE/.deps" mpmath jsonschema
fi
/venv/bin/python -c "import sys; sys.path.append('$HERE/.deps'); import mpmath, jsonschema; print('gtmon deps ok')"
