#!/bin/sh
# usage: tools/run_all.sh <tier> <seed> [checks...]   (prints one status line per check)
tier=${1:-quick}; seed=${2:-0}; shift 2 2>/dev/null
checks=${*:-C01 C02 C03 C04 C05 C06 C07 C08 C09 C10 C11 C12 C13 C14 C15 C16 C17 C18 C19 C20}
cd "$(dirname "$0")/.."
for c in $checks; do
  start=$(date +%s)
  out=$(./check $c --tier $tier --seed $seed 2>&1); rc=$?
  echo "== $c tier=$tier seed=$seed exit=$rc $(( $(date +%s) - start ))s"
  echo "$out" | grep -E "VIOLATION|INCONCLUSIVE|mechanism=|^\[" | head -12
done
