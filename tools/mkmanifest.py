#!/usr/bin/env python3
"""Regenerates MANIFEST.json from the property modules that exist."""
import json
import os

HERE = os.path.dirname(os.path.dirname(os.path.abspath(__file__)))
props = [json.loads(l) for l in open(os.path.join(HERE, "properties.jsonl"))]
TECH = {
    "C01": "runtime monitoring: hooked well-formedness/state-history monitors + reference-model oracle on evaluate_ln over the full kind x op x path cross product",
    "C02": "runtime monitoring: DENS/CACHE monitors on every density crossing the API boundary + closed-form and quadrature mass oracles",
    "C03": "runtime monitoring: recorded integrate() results checked against an independent Isserlis/Wick reference model (bit-exact in integer mode)",
    "C04": "runtime monitoring: online CACHE/SPEC monitors on every object of random operation histories + differential execution under cache-warming query schedules",
    "C05": "runtime monitoring: reference-model oracle (NumPy mvn) + quadrature of the observed joint density",
    "C06": "runtime monitoring: product-rule oracle on observed conditional/marginal/joint log-densities",
    "C07": "runtime monitoring: chain-rule oracle on the observed joint + CACHE monitor on the joint's cached quantities",
    "C08": "runtime monitoring: reference-model oracle for the marginal transformation + quadrature of observed p(y|x)p(x)",
    "C09": "runtime monitoring: Bayes-rule oracle on observed log-densities + recorded round-trip histories",
    "C10": "runtime monitoring: likelihood oracle on set_y factors + WF monitor on the returned batch",
    "C11": "runtime monitoring: offline checker over recorded update histories (three routes, permutations, dense state-space reference)",
    "C12": "runtime monitoring: metamorphic slice-commutation monitor over an operation catalogue + SPEC monitor on update",
    "C13": "runtime monitoring: reference-model oracles for entropy/KL/conditional entropy/mutual information + sign and symmetry monitors",
    "C14": "runtime monitoring: closed-form and Gauss-Hermite oracles on observed expected log-factor / log-conditional values",
    "C15": "runtime monitoring: differential execution of specialised vs general representation with offline comparison",
    "C16": "runtime monitoring: quadrature of the observed condition_on_x moments vs moment-matched outputs",
    "C17": "runtime monitoring: coherence oracle on condition_on_x + quadrature of the true expected log-density vs observed bounds",
    "C18": "runtime monitoring: differential execution eager vs jit/vmap/grad and across pytree/jit/scan/dict boundaries",
    "C19": "runtime monitoring: structural oracle on recorded samples vs the key's normal stream + statistical monitors",
    "C20": "runtime monitoring: mpmath quadrature oracle on observed truncated integrals, additivity and normalisation monitors",
}
checks, na = [], []
for p in props:
    pid = p["id"]
    if os.path.exists(os.path.join(HERE, "gtmon", "props", pid.lower() + ".py")):
        checks.append({
            "property_id": pid,
            "quick_cmd": f"./check {pid} --tier quick",
            "thorough_cmd": f"./check {pid} --tier thorough",
            "evidence_file": f"/verif/evidence/{pid}.json",
            "replay_cmd_template": f"./check {pid} --replay {{path}}",
            "engine": "gtmon",
            "level_claimed": {
                "category": "exploration",
                "text": "Held on the executions produced: seeded hostile workloads over a fixed shape/kind/path catalogue run against the real code with monitors on; an independent oracle judges every recorded result. Universal quantifiers are explored inside the bounds stated in DESIGN.md section 5; a finite run decides only what it observed.",
                "design_ref": f"DESIGN.md section 5, {pid}",
            },
            "level_note": "Trusted: NumPy/SciPy/mpmath reference models, the hook layer (gtmon/hooks.py), jax/jaxlib as installed. Input domain: condition numbers <= 1e4, tolerance 1e-8 of the natural scale.",
            "technique": TECH[pid] + "; FORM monitor (differential re-execution of sampled boundary calls with NumPy-backed and integer-typed inputs)",
        })
    else:
        na.append({"property_id": pid, "reason": "check not built yet (work in progress; every property is decidable by runtime monitoring, see DESIGN.md section 1)"})
m = {
    "version": 1,
    "setup_cmd": "sh ./setup.sh",
    "hooks": {
        "guard": "GT_VERIF",
        "enable": "GT_VERIF=1 is set by ./check; instrumentation is applied from outside by gtmon/hooks.py (class-attribute wrappers + sys.monitoring) in the check's own processes, no source change in /repo",
        "baseline_off_cmd": "cd /repo && /venv/bin/python -m pytest -ra -q -p no:cacheprovider --timeout=900 --continue-on-collection-errors",
        "source_commits": [],
        "add_only": True,
    },
    "engines": [{"name": "gtmon", "path": "/verif/gtmon", "serves_properties": [c["property_id"] for c in checks],
                 "kind_free_text": "runtime monitors (method/__setattr__ hooks, online WF/CACHE/DENS/SPEC monitors, sys.monitoring coverage) + reference-model oracles, sharded over 16 subprocesses"}],
    "checks": checks,
    "notes": "exit 0 held, exit 1 VIOLATION, exit 2 INCONCLUSIVE (never folded into the other two). Known findings: /verif/known_findings.json.",
}
if na:
    m["not_applicable"] = na
json.dump(m, open(os.path.join(HERE, "MANIFEST.json"), "w"), indent=1)
print(len(checks), "checks,", len(na), "not built")
