#!/usr/bin/env python3
"""Runs the registered checks against every seeded change under /verif/seeded/<id>/.

For each: git -C /repo apply patch.diff ; run the quick check(s) named in meta.json ;
git -C /repo checkout -- . ; record exit code and violating mechanisms. Evidence and replays of
these runs go to a scratch directory so the committed evidence stays that of the clean tree.
usage: tools/seeded.py [name ...] [--tier quick|thorough] [--all-checks]
"""
import json
import os
import subprocess
import sys
import tempfile

HERE = os.path.dirname(os.path.dirname(os.path.abspath(__file__)))
SEEDED = os.path.join(HERE, "seeded")


def sh(cmd, **kw):
    return subprocess.run(cmd, shell=True, capture_output=True, text=True, **kw)


def main():
    args = [a for a in sys.argv[1:] if not a.startswith("--")]
    tier = "quick"
    if "--tier" in sys.argv:
        tier = sys.argv[sys.argv.index("--tier") + 1]
        args = [a for a in args if a != tier]
    names = args or sorted(d for d in os.listdir(SEEDED) if os.path.isdir(os.path.join(SEEDED, d)))
    assert sh("git -C /repo status --porcelain").stdout.strip() == "", "/repo not clean"
    rows = []
    scratch = tempfile.mkdtemp(prefix="gtseed_")
    env = dict(os.environ, GT_EVIDENCE_DIR=os.path.join(scratch, "ev"),
               GT_REPLAY_DIR=os.path.join(scratch, "rp"))
    for n in names:
        d = os.path.join(SEEDED, n)
        meta = json.load(open(os.path.join(d, "meta.json")))
        checks = meta.get("checks") or [meta["property"]]
        if "--all-checks" in sys.argv:
            checks = [f"C{i:02d}" for i in range(1, 21)]
        r = sh(f"git -C /repo apply {os.path.join(d, 'patch.diff')}")
        if r.returncode != 0:
            rows.append((n, meta["property"], "-", "patch does not apply", ""))
            continue
        try:
            for c in checks:
                r = subprocess.run([os.path.join(HERE, "check"), c, "--tier", tier], env=env,
                                   capture_output=True, text=True, cwd=HERE)
                mechs = [l.strip().split(" count=")[0].replace("mechanism=", "")
                         for l in r.stdout.splitlines() if l.strip().startswith("mechanism=")]
                status = {0: "MISSED (exit 0)", 1: "caught", 2: "inconclusive"}.get(
                    r.returncode, f"exit {r.returncode}")
                rows.append((n, meta["property"], c, status, "; ".join(mechs[:4])))
                print(n, c, status, mechs[:3], flush=True)
        finally:
            sh("git -C /repo checkout -- .")
    sh(f"rm -rf {scratch}")
    out = os.path.join(SEEDED, "RESULTS.md")
    old = {}
    if os.path.exists(out):
        for l in open(out):
            if l.startswith("| ") and not l.startswith("| seeded") and not l.startswith("| ---"):
                c = [x.strip() for x in l.strip().strip("|").split("|")]
                if len(c) >= 5:
                    old[(c[0], c[2])] = c
    for r in rows:
        old[(r[0], r[2])] = list(r)
    with open(out, "w") as f:
        f.write("# Seeded changes vs checks (quick tier unless noted)\n\n")
        f.write("| seeded change | breaks | check run | outcome | violating mechanisms |\n")
        f.write("| --- | --- | --- | --- | --- |\n")
        for k in sorted(old):
            f.write("| " + " | ".join(old[k]) + " |\n")


if __name__ == "__main__":
    main()
