#!/usr/bin/env python3
"""Merges result rows (JSON list of [change, breaks, check, outcome, mechanisms]) into
seeded/RESULTS.md, keeping the table sorted. usage: tools/addrows.py rows.json"""
import json, os, sys
HERE = os.path.dirname(os.path.dirname(os.path.abspath(__file__)))
out = os.path.join(HERE, "seeded", "RESULTS.md")
old = {}
for l in open(out):
    if l.startswith("| ") and not l.startswith("| seeded") and not l.startswith("| ---"):
        c = [x.strip() for x in l.strip().strip("|").split("|")]
        if len(c) >= 5:
            old[(c[0], c[2])] = c
for r in json.load(open(sys.argv[1])):
    old[(r[0], r[2])] = list(r)
with open(out, "w") as f:
    f.write("# Seeded changes vs checks (quick tier unless noted)\n\n")
    f.write("| seeded change | breaks | check run | outcome | violating mechanisms |\n")
    f.write("| --- | --- | --- | --- | --- |\n")
    for k in sorted(old):
        f.write("| " + " | ".join(old[k]) + " |\n")
print(len(old), "rows;", sum(1 for v in old.values() if v[3] == "caught"), "caught")
