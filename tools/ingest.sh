#!/bin/bash
# usage: tools/ingest.sh <Cxx> <A|B> [src_dir]   -- independently confirms a seeded change in a
# fresh scratch worktree (demo passes clean / fails changed; unedited suite passes changed)
# and, if confirmed, stores it under /verif/seeded/<Cxx>-<A|B>/ .
set -u
P=$1; V=$2; SRC=${3:-/tmp/wt_$P/MUTANT}; NAME=${4:-$V}
W=/tmp/verify_${P}_${NAME}
OUT=/verif/seeded/${P}-${NAME}
[ -f $SRC/$V.diff ] || { echo "no $SRC/$V.diff"; exit 2; }
git -C /repo worktree remove --force $W 2>/dev/null
git -C /repo worktree add -q --detach $W HEAD || exit 2
export PYTHONPATH=$W OMP_NUM_THREADS=1 XLA_FLAGS="--xla_cpu_multi_thread_eigen=false intra_op_parallelism_threads=1" PYTHONDONTWRITEBYTECODE=1
mkdir -p $W/MUTANT; cp $SRC/$V.diff $SRC/demo_$V.py $W/MUTANT/
cd $W
where=$(/venv/bin/python -W ignore -c "import gaussian_toolbox; print(gaussian_toolbox.__file__)" 2>/dev/null)
case "$where" in $W/*) ;; *) echo "import path wrong: $where"; exit 2;; esac
/venv/bin/python -W ignore MUTANT/demo_$V.py > /tmp/ingest_${P}_${V}_clean.log 2>&1; clean=$?
git apply MUTANT/$V.diff || { echo "patch does not apply"; cd /; git -C /repo worktree remove --force $W; exit 2; }
changed_files=$(git diff --name-only | tr '\n' ' ')
/venv/bin/python -W ignore MUTANT/demo_$V.py > /tmp/ingest_${P}_${V}_mut.log 2>&1; mut=$?
timeout 3000 /venv/bin/python -m pytest -q -p no:cacheprovider -n 6 tests > /tmp/ingest_${P}_${V}_tests.log 2>&1; tests=$?
summary=$(grep -E "passed|failed" /tmp/ingest_${P}_${V}_tests.log | tail -1)
if [ $tests -ne 0 ]; then
  # one Monte-Carlo test is order dependent under xdist: if it is the only failure, run its file
  # serially (as the baseline command does) and accept a pass there
  nf=$(grep -c "^FAILED" /tmp/ingest_${P}_${V}_tests.log)
  only=$(grep "^FAILED" /tmp/ingest_${P}_${V}_tests.log | grep -c "test_get_density_of_linear_sum")
  if [ "$nf" = "1" ] && [ "$only" = "1" ]; then
    timeout 1500 /venv/bin/python -m pytest -q -p no:cacheprovider tests/test_pdf.py > /tmp/ingest_${P}_${V}_tests2.log 2>&1 && tests=0
    summary="$summary; order-dependent Monte-Carlo test re-run serially: $(grep -E 'passed|failed' /tmp/ingest_${P}_${V}_tests2.log | tail -1)"
  fi
fi
echo "$P-$V demo_clean_exit=$clean demo_changed_exit=$mut tests_exit=$tests [$summary] files: $changed_files"
cd /
if [ $clean -eq 0 ] && [ $mut -ne 0 ] && [ $tests -eq 0 ]; then
  mkdir -p $OUT; cp $SRC/$V.diff $OUT/patch.diff; cp $SRC/demo_$V.py $OUT/demo.py
  python3 - "$P" "$V" "$OUT" "$clean" "$mut" "$summary" "$changed_files" <<'PY'
import json, sys
p, v, out, clean, mut, summary, files = sys.argv[1:8]
v = out.rsplit("-", 1)[1]
meta = {"property": p, "variant": v, "files": files.split(),
        "confirmed": {"demo_exit_clean_tree": int(clean), "demo_exit_changed_tree": int(mut),
                      "unedited_test_suite_with_change": summary,
                      "how": "fresh scratch worktree of /repo HEAD under /tmp; demo run before and after git apply; pytest -n 6 tests with the change applied; worktree removed afterwards"},
        "needs_to_manifest": "see notes.md", "checks": [p]}
json.dump(meta, open(out + "/meta.json", "w"), indent=1)
PY
  [ -f $SRC/notes.md ] && cp $SRC/notes.md $OUT/notes.md
  echo "  -> kept as $OUT"
else
  echo "  -> REJECTED"
fi
git -C /repo worktree remove --force $W
