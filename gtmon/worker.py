"""One shard: runs a subset of a property's cells in this process with the hooks on."""
import argparse
import importlib
import json
import os
import sys
import time

sys.path.insert(0, os.path.dirname(os.path.dirname(os.path.abspath(__file__))))
from gtmon import core  # noqa: E402


def main():
    ap = argparse.ArgumentParser()
    ap.add_argument("--prop", required=True)
    ap.add_argument("--tier", default="quick")
    ap.add_argument("--seed", type=int, default=0)
    ap.add_argument("--cells", required=True, help="json file with the list of cells to run")
    ap.add_argument("--out", required=True)
    ap.add_argument("--budget", type=float, default=1e9, help="soft wall-clock budget (s)")
    a = ap.parse_args()
    t0 = time.time()
    core.setup_env()
    from gtmon import hooks

    mod = importlib.import_module(f"gtmon.props.{a.prop.lower()}")
    from gtmon import gen
    hostile = getattr(mod, "HOSTILE", ())
    gen.HOSTILE_SCALE = "scale" in hostile
    gen.HOSTILE_MEAN = "mean" in hostile
    gen.HOSTILE_SPECIAL = "special" in hostile
    gen.LIVE_PEERS = "special" in hostile
    rec = core.Rec(a.prop)
    rec.classifier = getattr(mod, "classify", None)
    hooks.install(monitors=getattr(mod, "MONITORS", ("WF",)), rec=rec)
    cells = json.load(open(a.cells))
    # the order in which a process meets the cells is part of the history (process-level memos,
    # class-level caches): a different order for every seed; each cell's own values depend on
    # (seed, cell) only, so a replay of one cell is unaffected
    import numpy as _np
    order = _np.random.default_rng([a.seed & 0xFFFFFFFF, len(cells)]).permutation(len(cells))
    cells = [cells[i] for i in order]
    done, skipped, errors = 0, 0, []
    for ci, cell in enumerate(cells):
        if ci and ci % 8 == 0:
            # compiled executables of earlier cells are not needed again in this process (the
            # persistent cache on disk keeps them): bound the memory of a long shard
            try:
                import jax
                jax.clear_caches()
            except Exception:
                pass
        if time.time() - t0 > a.budget:
            skipped += 1
            continue
        rec.set_ctx(cell=dict(cell, import_order=os.environ.get("GT_IMPORT_ORDER", "x64-first")))
        try:
            mod.run_cell(cell, rec, a.seed)
            done += 1
        except Exception as e:  # harness or unclassified library error
            info = core.exc_info(e)
            info["cell"] = cell
            errors.append(info)
    out = rec.dump()
    out.update(hooks.dump())
    out["coverage"] = hooks.coverage_report(getattr(mod, "ANCHORS", []))
    out["cells_done"] = done
    out["cells_skipped"] = skipped
    out["harness_errors"] = errors
    out["wall_s"] = time.time() - t0
    with open(a.out, "w") as f:
        json.dump(core._jsonable(out), f)


if __name__ == "__main__":
    main()
