"""Instrumentation of the real library classes from outside (no repository patch).

* method wrappers on every function of every class of the library modules; a depth
  counter separates API-boundary calls (depth 0) from internal ones;
* __setattr__ wrappers: JAX arrays are immutable, so rebinding an attribute is the only
  way an object's state can change -> the recorded history is complete (monitor SPEC);
* online monitors evaluated at the return of every boundary call on self, object
  arguments and object results: WF (well-formed batch), CACHE (cached covariance /
  log-dets / mean / log-partition agree with precision and information vector), DENS
  (densities integrate to one);
* sys.monitoring LINE coverage restricted to the library's code objects.

Oracles are NumPy LU based (never the library's Cholesky helpers, never JAX).
"""
import sys
import types

import numpy as np

from . import form
from . import oracles as orc

CACHE_ATTRS = ("Sigma", "ln_det_Sigma", "ln_det_Lambda", "mu", "lnZ")
DEFINING = ("Lambda", "nu", "ln_beta", "v", "g", "M", "b", "A", "W", "lower_limit",
            "upper_limit")
MUTATORS = {"update", "normalize", "update_Sigma", "update_phi", "compute_lnZ",
            "invert_lambda", "compute_mu", "_prepare_integration"}
# mutators allowed to change a *value* (not just fill None):
VALUE_MUTATORS = {"update": None, "normalize": ("ln_beta", "lnZ", "Sigma", "ln_det_Sigma",
                                                "ln_det_Lambda"),
                  "update_Sigma": ("Sigma", "Lambda", "ln_det_Sigma"),
                  "update_phi": ("k_func",)}
SKIP = {"__getitem__", "__len__", "__iter__", "__repr__", "__eq__", "__str__",
        "__getstate__", "__setstate__", "__setattr__", "from_tuple", "to_tuple",
        "replace", "__hash__", "__class_getitem__"}
KAPPA_MAX = 1e4
_MISSING = object()


class State:
    def __init__(self):
        self.rec = None
        self.monitors = set()
        self.depth = 0
        self.stack = []  # (cls name, method name, id(self))
        self.constructing = {}  # id -> count
        self.events = {}  # "Class.method" -> boundary call count
        self.inner_events = {}
        self.mon_evals = {}  # monitor -> producer -> count
        self.installed = False
        self.lines = set()  # (filename, lineno)
        self.code_lines = {}  # filename -> set(executable lines)
        self.suspend = 0
        self.setattr_events = 0
        self.skip_ctor_boundary = False
        self.user_objs = {}  # id -> object constructed directly by a repository test
        self.bad_objs = []  # ill-formed objects already reported (kept alive: ids stay unique)


STATE = State()


def _is_tracer(a):
    import jax

    return isinstance(a, jax.core.Tracer)


def _lib():
    from gaussian_toolbox import (approximate_conditional, conditional, factor, measure,
                                  pdf)
    from gaussian_toolbox.experimental import truncated_measure

    return factor, measure, pdf, conditional, approximate_conditional, truncated_measure


def lib_classes():
    out = []
    for mod in _lib():
        for name, obj in vars(mod).items():
            if isinstance(obj, type) and obj.__module__ == mod.__name__:
                out.append(obj)
    return out


def _kind(o):
    factor, measure, pdf, conditional, approx, trunc = _lib()
    if isinstance(o, pdf.GaussianPDF):
        return "pdf"
    if isinstance(o, measure.GaussianMeasure):
        return "measure"
    if isinstance(o, factor.ConjugateFactor):
        return "factor"
    if isinstance(o, conditional.ConditionalGaussianPDF):
        return "cond"
    if isinstance(o, trunc.TruncatedGaussianMeasure):
        return "trunc"
    return None


def _collect(objs, out, depth=0):
    if depth > 2:
        return
    if isinstance(objs, (list, tuple)):
        for o in objs:
            _collect(o, out, depth + 1)
    elif isinstance(objs, dict) and _kind(objs) is None:
        return
    elif _kind(objs) is not None:
        out.append(objs)


def _attrs(o, names):
    d = o.__dict__
    return {n: d.get(n) for n in names if d.get(n) is not None}


def _any_tracer(o):
    for v in o.__dict__.values():
        if _is_tracer(v):
            return True
    return False


# ----------------------------------------------------------------------------- flags
def _flags(self, args):
    fl = []
    d = getattr(self, "__dict__", {})
    try:
        if "A" in d and "W" in d and d.get("M") is not None:
            fl.append("Da>Dy" if d["A"].shape[2] > d["M"].shape[1] else "Da=Dy")
    except Exception:
        pass
    k = _kind(self)
    try:
        if k is not None and k != "trunc":
            fl.append("Rs=" + ("1" if self.R == 1 else "n"))
    except Exception:
        pass
    for a in args:
        ka = _kind(a)
        if ka in ("pdf", "measure", "factor"):
            try:
                fl.append("Ra=" + ("1" if a.R == 1 else "n"))
                if k == "cond" and ka in ("pdf", "measure"):
                    fl.append("Dx>Dy" if a.D > self.Dy else "Dx<=Dy")
            except Exception:
                pass
            break
    return ",".join(fl)


# ----------------------------------------------------------------------------- monitors
def _np(a):
    return np.asarray(a, dtype=float)


def _report(mon, sub, producer, detail):
    rec = STATE.rec
    if rec is None:
        return
    rec.fail(f"{mon}/{sub}:{producer}", detail)


def _count(mon, producer):
    d = STATE.mon_evals.setdefault(mon, {})
    d[producer] = d.get(producer, 0) + 1


def _wf(o, producer):
    """every array attribute has leading dimension R; all finite."""
    k = _kind(o)
    d = o.__dict__
    try:
        R = int(o.R)
    except Exception as e:
        _report("WF", "R-undefined", producer, {"error": repr(e)})
        return False
    names = {"factor": ("Lambda", "nu", "ln_beta", "v", "g"),
             "measure": ("Lambda", "nu", "ln_beta") + CACHE_ATTRS,
             "pdf": ("Lambda", "nu", "ln_beta") + CACHE_ATTRS,
             "cond": ("M", "b", "Sigma", "Lambda", "ln_det_Sigma")}[k]
    ok = True
    shapes = {}
    for n in names:
        a = d.get(n)
        if a is None or not hasattr(a, "shape"):
            continue
        shapes[n] = tuple(a.shape)
        if len(a.shape) == 0 or a.shape[0] != R:
            ok = False
    if not ok:
        _report("WF", "leading-dim", producer, {"R": R, "shapes": shapes, "class": type(o).__name__})
        return False
    # inner dimensions
    try:
        if k in ("factor", "measure", "pdf"):
            D = int(o.D)
            exp = {"Lambda": (R, D, D), "nu": (R, D), "ln_beta": (R,), "Sigma": (R, D, D),
                   "ln_det_Sigma": (R,), "ln_det_Lambda": (R,), "mu": (R, D), "lnZ": (R,),
                   "v": (R, D), "g": (R,)}
            bad = {n: s for n, s in shapes.items() if n in exp and s != exp[n]}
            if bad:
                _report("WF", "shape", producer, {"R": R, "D": D, "bad": bad,
                                                   "class": type(o).__name__})
                return False
    except Exception:
        pass
    for n in shapes:
        a = _np(d[n])
        if not np.all(np.isfinite(a)):
            _report("WF", "non-finite", producer, {"attr": n, "class": type(o).__name__})
            return False
    return True


def _tol_ok(err, ns, rec, name):
    tol = 1e-8 * ns
    ratio = float(np.max(err / tol)) if np.size(err) else 0.0
    if rec is not None:
        if ratio <= 1.0 and ratio > rec.ratios.get(name, 0.0):
            rec.ratios[name] = ratio
        if ratio <= 1.0 and ratio > rec.max_ratio:
            rec.max_ratio, rec.max_ratio_at = ratio, name
    return ratio <= 1.0, ratio


def _cache_measure(o, producer):
    d = o.__dict__
    rec = STATE.rec
    Lam = _np(d["Lambda"])
    nu = _np(d["nu"])
    have = [n for n in CACHE_ATTRS if d.get(n) is not None]
    if not have:
        return None
    Ls = 0.5 * (Lam + np.swapaxes(Lam, -1, -2))
    w = np.linalg.eigvalsh(Ls)
    if np.any(w[..., 0] <= 0):
        rec and rec.count("cache_not_pd")
        return None
    if float(np.max(w[..., -1] / w[..., 0])) > KAPPA_MAX:
        rec and rec.count("cache_out_of_domain")
        return None
    ok = True
    S_ref = orc.inv(Lam)
    ld_ref = -orc.slogdet(Lam)  # ln det Sigma
    D = Lam.shape[-1]
    if d.get("Sigma") is not None:
        S = _np(d["Sigma"])
        rec and setattr(rec, "evaluations", rec.evaluations + 1)
        good, ratio = _tol_ok(np.abs(S - S_ref), np.max(np.abs(S_ref), axis=(-1, -2),
                                                          keepdims=True), rec, "CACHE/Sigma")
        if not good:
            ok = False
            _report("CACHE", "Sigma", producer,
                    {"err_over_tol": ratio, "Sigma": S, "inv(Lambda)": S_ref})
    for n, ref in (("ln_det_Sigma", ld_ref), ("ln_det_Lambda", -ld_ref)):
        if d.get(n) is not None:
            rec and setattr(rec, "evaluations", rec.evaluations + 1)
            good, ratio = _tol_ok(np.abs(_np(d[n]) - ref), 1.0 + np.abs(ref) + D, rec,
                                  "CACHE/" + n)
            if not good:
                ok = False
                _report("CACHE", n, producer,
                        {"err_over_tol": ratio, n: _np(d[n]), "ref": ref,
                         "residual": _np(d[n]) - ref})
    mu_ref = np.einsum("rde,re->rd", S_ref, nu)
    mu_ns = 1e-300 + np.einsum("rde,re->rd", np.abs(S_ref), np.abs(nu))
    if d.get("mu") is not None:
        rec and setattr(rec, "evaluations", rec.evaluations + 1)
        good, ratio = _tol_ok(np.abs(_np(d["mu"]) - mu_ref),
                              np.maximum(np.max(mu_ns, axis=-1, keepdims=True), 1e-12), rec,
                              "CACHE/mu")
        if not good:
            ok = False
            _report("CACHE", "mu", producer, {"err_over_tol": ratio, "mu": _np(d["mu"]),
                                              "ref": mu_ref})
    if d.get("lnZ") is not None:
        lnZ_ref = 0.5 * (np.sum(nu * mu_ref, -1) + D * orc.LN2PI + ld_ref)
        ns = 1.0 + 0.5 * (np.sum(np.abs(nu) * mu_ns, -1) + D * orc.LN2PI + np.abs(ld_ref))
        rec and setattr(rec, "evaluations", rec.evaluations + 1)
        good, ratio = _tol_ok(np.abs(_np(d["lnZ"]) - lnZ_ref), ns, rec, "CACHE/lnZ")
        if not good:
            ok = False
            _report("CACHE", "lnZ", producer, {"err_over_tol": ratio, "lnZ": _np(d["lnZ"]),
                                               "ref": lnZ_ref})
    return ok


def _cache_cond(o, producer):
    d = o.__dict__
    rec = STATE.rec
    if d.get("Sigma") is None or d.get("Lambda") is None:
        return None
    S = _np(d["Sigma"])
    Lam = _np(d["Lambda"])
    if S.ndim != 3 or Lam.shape != S.shape:
        return None
    w = np.linalg.eigvalsh(0.5 * (S + np.swapaxes(S, -1, -2)))
    if np.any(w[..., 0] <= 0) or float(np.max(w[..., -1] / w[..., 0])) > KAPPA_MAX:
        rec and rec.count("cache_out_of_domain")
        return None
    ok = True
    L_ref = orc.inv(S)
    rec and setattr(rec, "evaluations", rec.evaluations + 1)
    good, ratio = _tol_ok(np.abs(Lam - L_ref),
                          np.max(np.abs(L_ref), axis=(-1, -2), keepdims=True), rec,
                          "CACHE/cond.Lambda")
    if not good:
        ok = False
        _report("CACHE", "cond.Lambda", producer, {"err_over_tol": ratio, "Lambda": Lam,
                                                   "inv(Sigma)": L_ref})
    if d.get("ln_det_Sigma") is not None:
        ref = orc.slogdet(S)
        rec and setattr(rec, "evaluations", rec.evaluations + 1)
        good, ratio = _tol_ok(np.abs(_np(d["ln_det_Sigma"]) - ref),
                              1.0 + np.abs(ref) + S.shape[-1], rec, "CACHE/cond.ln_det_Sigma")
        if not good:
            ok = False
            _report("CACHE", "cond.ln_det_Sigma", producer,
                    {"err_over_tol": ratio, "ln_det_Sigma": _np(d["ln_det_Sigma"]), "ref": ref})
    return ok


def _dens(o, producer):
    """a density integrates to one: ln_beta = -lnZ_true(Lambda, nu)."""
    d = o.__dict__
    rec = STATE.rec
    Lam, nu, lb = _np(d["Lambda"]), _np(d["nu"]), _np(d["ln_beta"])
    Ls = 0.5 * (Lam + np.swapaxes(Lam, -1, -2))
    w = np.linalg.eigvalsh(Ls)
    if np.any(w[..., 0] <= 0) or float(np.max(w[..., -1] / w[..., 0])) > KAPPA_MAX:
        rec and rec.count("dens_out_of_domain")
        return None
    D = Lam.shape[-1]
    S_ref = orc.inv(Lam)
    mu_abs = np.einsum("rde,re->rd", np.abs(S_ref), np.abs(nu))
    lnZ = orc.gauss_lnZ(Lam, nu)
    ns = 1.0 + 0.5 * (np.sum(np.abs(nu) * mu_abs, -1) + D * orc.LN2PI
                      + np.abs(orc.slogdet(Lam)))
    rec and setattr(rec, "evaluations", rec.evaluations + 1)
    good, ratio = _tol_ok(np.abs(lb + lnZ), ns, rec, "DENS/mass")
    if not good:
        _report("DENS", "mass", producer,
                {"err_over_tol": ratio, "ln_mass": lb + lnZ, "class": type(o).__name__})
    return good


def run_monitors(objs, producer):
    mons = STATE.monitors
    seen = set()
    for o in objs:
        if id(o) in seen:
            continue
        seen.add(id(o))
        k = _kind(o)
        if k is None or k == "trunc":
            continue
        if any(o is b for b in STATE.bad_objs):
            continue
        try:
            if _any_tracer(o):
                STATE.rec and STATE.rec.count("monitor_skipped_tracer")
                continue
            good = True
            if "WF" in mons:
                _count("WF", producer)
                good = _wf(o, producer)
            if not good:
                if len(STATE.bad_objs) < 1000:
                    STATE.bad_objs.append(o)
                continue
            if "CACHE" in mons:
                r = _cache_measure(o, producer) if k in ("measure", "pdf") else (
                    _cache_cond(o, producer) if k == "cond" else None)
                if r is not None:
                    _count("CACHE", producer)
                if r is False and len(STATE.bad_objs) < 1000:
                    STATE.bad_objs.append(o)
            if "DENS" in mons and k == "pdf":
                r = _dens(o, producer)
                if r is not None:
                    _count("DENS", producer)
                if r is False and len(STATE.bad_objs) < 1000:
                    STATE.bad_objs.append(o)
        except Exception as e:  # a monitor must never break the workload
            STATE.rec and STATE.rec.count("monitor_error")
            if STATE.rec is not None and len(STATE.rec.notes) < 5:
                STATE.rec.notes.append(f"monitor error at {producer}: {e!r}")


# ----------------------------------------------------------------------------- wrappers
def _wrap_method(cls, name, fn):
    cname = cls.__name__
    is_ctor = name == "__init__"

    def wrapper(self, *args, **kwargs):
        st = STATE
        if st.suspend:
            return fn(self, *args, **kwargs)
        boundary = st.depth == 0
        key = f"{type(self).__name__}.{name}"
        if boundary:
            st.events[key] = st.events.get(key, 0) + 1
            try:
                flags = _flags(self, args)
            except Exception:
                flags = ""
        else:
            st.inner_events[key] = st.inner_events.get(key, 0) + 1
        form_pre = None
        if boundary and "FORM" in st.monitors and st.rec is not None and (
                name not in form.SKIP_METHODS):
            try:
                fkey = form.key_of(key, flags, self, args, kwargs)
                if form.selected(fkey) and not form.has_tracer((self, args, kwargs)):
                    form_pre = form.clone_state((self, args, kwargs))
            except Exception:
                form_pre = None
        st.depth += 1
        st.stack.append((cname, name, id(self)))
        if is_ctor:
            st.constructing[id(self)] = st.constructing.get(id(self), 0) + 1
        try:
            res = fn(self, *args, **kwargs)
        finally:
            st.depth -= 1
            st.stack.pop()
            if is_ctor:
                c = st.constructing.get(id(self), 1) - 1
                if c <= 0:
                    st.constructing.pop(id(self), None)
                else:
                    st.constructing[id(self)] = c
        if boundary and "WF" in st.monitors and st.rec is not None and not is_ctor and (
                name not in MUTATORS):
            # jax arrays are immutable, so two objects can only share mutable state by *being*
            # the same object: an operation that hands back its receiver or one of its operands
            # makes every later in-place mutator (update, normalize, update_Sigma) act on both
            outs = []
            _collect(res, outs)
            ins = []
            _collect(self, ins)
            _collect(list(args), ins)
            _collect(list(kwargs.values()), ins)
            for o in outs:
                if any(o is i for i in ins):
                    _count("WF", f"{key}[{flags}]")
                    _report("WF", "result-is-operand", f"{key}[{flags}]",
                            {"class": type(o).__name__,
                             "which": "receiver" if o is self else "argument"})
                    break
        if boundary and st.monitors and st.rec is not None:
            objs = []
            _collect(self, objs)
            _collect(list(args), objs)
            _collect(list(kwargs.values()), objs)
            _collect(res, objs)
            if st.skip_ctor_boundary and name in ("__init__", "__post_init__"):
                if len(st.user_objs) < 200000:
                    st.user_objs[id(self)] = self
                objs = []
            elif st.user_objs:
                objs = [o for o in objs if id(o) not in st.user_objs]
            if objs:
                st.suspend += 1
                try:
                    run_monitors(objs, f"{key}[{flags}]")
                finally:
                    st.suspend -= 1
        if form_pre is not None:
            st.suspend += 1
            try:
                if not form.has_tracer(res):
                    form.run(fn, name, fkey, res, form_pre, st, _report, _count)
            except Exception as e:  # a monitor must never break the workload
                st.rec.count("monitor_error")
                if len(st.rec.notes) < 5:
                    st.rec.notes.append(f"FORM monitor error at {key}: {e!r}")
            finally:
                st.suspend -= 1
        return res

    wrapper.__name__ = getattr(fn, "__name__", name)
    wrapper.__qualname__ = getattr(fn, "__qualname__", name)
    wrapper.__doc__ = fn.__doc__
    wrapper.__wrapped__ = fn
    wrapper.__gtmon__ = True
    return wrapper


def _equal(a, b):
    if a is b:
        return True
    try:
        if _is_tracer(a) or _is_tracer(b):
            return True
        if hasattr(a, "shape") or hasattr(b, "shape"):
            A, B = np.asarray(a), np.asarray(b)
            return A.shape == B.shape and bool(np.array_equal(A, B, equal_nan=True))
        return True  # non-array attributes are not judged
    except Exception:
        return True


def _make_setattr(cls):
    base_setattr = object.__setattr__

    def __setattr__(self, name, value):
        st = STATE
        if st.suspend or "SPEC" not in st.monitors or (
                name not in CACHE_ATTRS and name not in DEFINING):
            return base_setattr(self, name, value)
        old = self.__dict__.get(name, _MISSING)
        base_setattr(self, name, value)
        st.setattr_events += 1
        if old is _MISSING or old is None:
            return
        if id(self) in st.constructing:
            return
        if _equal(old, value):
            return
        # a value changed on a live object: only declared mutators may do that
        for (c, m, i) in st.stack:
            if i == id(self) and m in VALUE_MUTATORS:
                allowed = VALUE_MUTATORS[m]
                if allowed is None or name in allowed:
                    return
        inner = st.stack[-1][1] if st.stack else "<user code>"
        outer = f"{st.stack[0][0]}.{st.stack[0][1]}" if st.stack else "<user code>"
        if not st.stack:
            return  # user code assigning attributes is not a library operation
        _report("SPEC", f"{name}-changed", f"{type(self).__name__}.{inner}",
                {"attr": name, "boundary": outer, "old": old, "new": value})

    __setattr__.__gtmon__ = True
    return __setattr__


def install(monitors=("WF", "CACHE", "DENS", "SPEC"), rec=None, coverage=True):
    st = STATE
    st.rec = rec
    st.monitors = set(monitors)
    if st.installed:
        return
    for cls in lib_classes():
        for name, attr in list(vars(cls).items()):
            if name in SKIP:
                continue
            if name.startswith("__") and name not in ("__init__", "__call__", "__mul__",
                                                      "__post_init__"):
                continue
            if isinstance(attr, types.FunctionType) and not getattr(attr, "__gtmon__", False):
                setattr(cls, name, _wrap_method(cls, name, attr))
        if "__setattr__" not in vars(cls) or not getattr(vars(cls)["__setattr__"],
                                                         "__gtmon__", False):
            setattr(cls, "__setattr__", _make_setattr(cls))
    st.installed = True
    if coverage:
        start_coverage()


# ----------------------------------------------------------------------------- coverage
TOOL = 3


def _iter_code(co, seen):
    if co in seen:
        return
    seen.add(co)
    yield co
    for c in co.co_consts:
        if isinstance(c, types.CodeType):
            yield from _iter_code(c, seen)


def start_coverage():
    mon = sys.monitoring
    try:
        mon.use_tool_id(TOOL, "gtmon")
    except ValueError:
        return
    st = STATE

    def on_line(code, lineno):
        st.lines.add((code.co_filename, lineno))
        return mon.DISABLE

    mon.register_callback(TOOL, mon.events.LINE, on_line)
    seen = set()
    mods = list(_lib())
    from gaussian_toolbox.utils import dataclass as dcm, linalg
    from gaussian_toolbox.experimental import misc

    mods += [linalg, misc, dcm]
    for mod in mods:
        for obj in vars(mod).values():
            fns = []
            if isinstance(obj, types.FunctionType) and obj.__module__ == mod.__name__:
                fns.append(obj)
            elif isinstance(obj, type) and obj.__module__ == mod.__name__:
                for a in vars(obj).values():
                    if isinstance(a, (staticmethod, classmethod)):
                        a = a.__func__
                    if isinstance(a, property):
                        a = a.fget
                    while hasattr(a, "__wrapped__") and getattr(a, "__gtmon__", False):
                        a = a.__wrapped__
                    if isinstance(a, types.FunctionType):
                        fns.append(a)
            for f in fns:
                f = getattr(f, "__wrapped__", f) if getattr(f, "__gtmon__", False) else f
                for co in _iter_code(f.__code__, seen):
                    if "gaussian_toolbox" not in co.co_filename:
                        continue
                    try:
                        mon.set_local_events(TOOL, co, mon.events.LINE)
                    except Exception:
                        continue
                    ls = st.code_lines.setdefault(co.co_filename, set())
                    for (_, _, ln) in co.co_lines():
                        if ln is not None and ln != co.co_firstlineno:
                            ls.add(ln)


_STMT_CACHE = {}


def _stmt_lines(filename):
    """statement-start lines inside function bodies (docstrings excluded), from the AST."""
    if filename in _STMT_CACHE:
        return _STMT_CACHE[filename]
    import ast

    out = set()
    try:
        tree = ast.parse(open(filename).read())
    except Exception:
        _STMT_CACHE[filename] = out
        return out
    for fn in ast.walk(tree):
        if not isinstance(fn, (ast.FunctionDef, ast.AsyncFunctionDef)):
            continue
        for i, st in enumerate(fn.body):
            for node in ast.walk(st):
                if not isinstance(node, ast.stmt):
                    continue
                if isinstance(node, (ast.FunctionDef, ast.ClassDef, ast.Pass)):
                    continue
                if isinstance(node, ast.Expr) and isinstance(getattr(node, "value", None),
                                                             ast.Constant):
                    continue  # docstring / bare constant
                out.add(node.lineno)
    _STMT_CACHE[filename] = out
    return out


def resolve_anchor(anchor):
    """anchor = (file, first, last) | (file, 'Class.func' or 'func') | (file, qualname, marker).
    Function-based anchors survive line shifts caused by repository commits. With a marker the
    region starts at the first line of the function that contains the marker text."""
    import ast
    import os

    if len(anchor) == 3 and isinstance(anchor[1], int):
        return anchor[0], anchor[1], anchor[2], f"{anchor[0]}:{anchor[1]}-{anchor[2]}"
    suffix, qual = anchor[0], anchor[1]
    marker = anchor[2] if len(anchor) > 2 else None
    import gaussian_toolbox

    path = os.path.join(os.path.dirname(gaussian_toolbox.__file__), suffix)
    src = open(path).read()
    tree = ast.parse(src)
    parts = qual.split(".")
    node = tree
    for part in parts:
        found = None
        for ch in ast.iter_child_nodes(node):
            if isinstance(ch, (ast.ClassDef, ast.FunctionDef)) and ch.name == part:
                found = ch
                break
        if found is None:
            return suffix, 0, -1, f"{suffix}:{qual} (not found)"
        node = found
    a, b = node.lineno, node.end_lineno
    label = f"{suffix}:{qual}"
    if marker:
        lines = src.splitlines()
        for ln in range(a, b + 1):
            if marker in lines[ln - 1]:
                a = ln
                break
        label += f"[{marker.strip()[:30]}..]"
    return suffix, a, b, label


def coverage_report(anchors):
    out = []
    for anchor in anchors:
        suffix, a, b, label = resolve_anchor(tuple(anchor))
        execable, hit = set(), set()
        for fn in STATE.code_lines:
            if fn.endswith("/gaussian_toolbox/" + suffix):
                execable |= {l for l in _stmt_lines(fn) if a <= l <= b}
        for (fn, l) in STATE.lines:
            if fn.endswith("/gaussian_toolbox/" + suffix) and a <= l <= b:
                hit.add(l)
        out.append({"label": label, "file": suffix, "first": a, "last": b,
                    "lines": sorted(execable), "hit": sorted(hit & execable)})
    return out


def dump():
    st = STATE
    return {"events": st.events, "inner_events": st.inner_events,
            "monitor_evaluations": st.mon_evals, "setattr_events": st.setattr_events}
