"""C07 - joint transformation is the chain rule p(x,y) = p(y|x) p(x)."""
import numpy as np

from .. import build, core, gen
from .. import oracles as orc
from ..gen import J
from . import lincommon as lc

PROP = "C07"
HOSTILE = ('scale', 'mean', 'special')
MONITORS = ("WF", "DENS", "CACHE", "FORM")
REQUIRED_MONITORS = ("CACHE",)
ANCHORS = [("conditional.py", "ConditionalGaussianPDF.affine_joint_transformation"),
           ("conditional.py", "ConditionalGaussianPDF.affine_joint_transformation", "if p_x.D > self.Dy"),
           ("conditional.py", "ConditionalGaussianPDF.affine_joint_transformation", "else:"),
           ("conditional.py", "ConditionalIdentityGaussianPDF.affine_joint_transformation"),
           ("conditional.py", "NNControlGaussianConditional.set_control_variable"),
           ("conditional.py", "NNControlGaussianConditional.affine_joint_transformation")]
RULE = ("cell = (conditional class in {full, diagonal, identity, identity-diagonal, NN-controlled}, "
        "(Dx,Dy) covering Dx>Dy, Dx=Dy, Dx<Dy, batch layout (R_cond,R_x) in {(1,1),(1,n),(n,1)}); "
        "oracle: ln N(y; M x + b, Sigma_y) + ln N(x; mu, Sigma_x) per component in the layout "
        "r_cond*R_x + r_x at 5 points; joint mean/covariance against the block formulas; CACHE "
        "monitor on the joint's precision/log-determinant; domain guard on the joint covariance; "
        "non-trivial: all; distinct = cell tuple")


def cells(tier, seed):
    return lc.cells(tier, "C07")


def run_cell(cell, rec, seed):
    for rep in range(cell["reps"]):
        # the chain-rule oracle never forms the joint matrix, so noise and prior covariances of
        # very different absolute scale (an ill-conditioned joint) are judged too
        st = lc.setup(cell, seed, "C07", rep, wide=True)
        if st is None:
            rec.count("out_of_domain")
            continue
        rng, c, tc, kw, p, tp, tj, info, att = st
        rec.count("out_of_domain", att)
        Rc, Rx, Dx, Dy = cell["Rc"], cell["Rx"], cell["Dx"], cell["Dy"]
        rec.cell([cell["ck"], Dx, Dy, Rc, Rx], True)
        j = lc.call(rec, "affine_joint_transformation",
                    lambda: c.affine_joint_transformation(p, **kw), info)
        if j is None:
            continue
        N = 5
        z = gen.points(rng, N, tj.mu_xy, tj.Sigma_xy)
        x, y = z[:, :Dx], z[:, Dx:]
        ly = np.stack([orc.mvn_logpdf_elem(y, x @ tj.M[r].T + tj.b[r], np.tile(
            tj.Sigma_c[r][None], (N, 1, 1))) for r in range(Rc * Rx)])
        lx = orc.mvn_logpdf(x, tj.mu_x, tj.Sigma_x)
        # natural scale: the joint is evaluated from its natural parameters, i.e. from the
        # expanded quadratic form; its terms are those of (|y| + |M||x| + |b|)' |L_c| (same)
        Lc = np.abs(orc.inv(tj.Sigma_c))
        ay = np.abs(y)[None] + np.einsum("rab,nb->rna", np.abs(tj.M), np.abs(x)) + np.abs(
            tj.b)[:, None]
        ns = orc.mvn_logpdf_abs(x, tj.mu_x, tj.Sigma_x) + np.abs(ly) + Dy + 0.5 * np.einsum(
            "rna,rab,rnb->rn", ay, Lc, ay)
        got = lc.call(rec, "evaluate_ln", lambda: j.evaluate_ln(J(z)), info)
        if got is not None:
            rec.close("chain rule", got, ly + lx, ns=ns, detail=info, mech="chain-rule")
        rec.close("joint mu", j.mu, tj.mu_xy, ns=np.max(np.abs(tj.mu_xy)) + 1e-12, detail=info,
                  mech="joint-mu")
        rec.close("joint Sigma", j.Sigma, tj.Sigma_xy, ns=np.max(np.abs(tj.Sigma_xy)),
                  detail=info, mech="joint-Sigma")
        if not info["joint_ill_conditioned"]:
            L_ref = orc.inv(tj.Sigma_xy)
            rec.close("joint Lambda", j.Lambda, L_ref, ns=np.max(np.abs(L_ref), axis=(1, 2),
                                                                 keepdims=True), detail=info,
                      mech="joint-Lambda")
        # ln det Sigma_xy = ln det Sigma_x + ln det Sigma_{y|x}: exact and well conditioned
        ld = orc.slogdet(tj.Sigma_x) + orc.slogdet(tj.Sigma_c)
        rec.close("joint ln_det_Sigma", j.ln_det_Sigma, ld, ns=1.0 + np.abs(ld) + Dx + Dy,
                  detail=info, mech="joint-ln_det")
        # library-internal chain rule: cond(x)(y) + p_x(x)
        if cell["ck"] != "nn":
            q = lc.call(rec, "condition_on_x", lambda: c.condition_on_x(J(x[:1])), info)
            if q is not None and Rx >= 1:
                ly0 = np.asarray(q.evaluate_ln(J(y[:1])))[:, 0]  # Rc
                lx0 = np.asarray(p.evaluate_ln(J(x[:1])))[:, 0]  # Rx
                ref0 = (ly0[:, None] + lx0[None]).reshape(-1)
                if got is not None:
                    rec.close("internal chain rule", np.asarray(got)[:, 0], ref0, ns=ns[:, 0],
                              detail=info, mech="chain-rule-internal")
        if cell["ck"] == "nn" and Rc == 1 and Rx == 1:
            # one NN-controlled object driven by a stream of short-lived control inputs (a
            # filtering loop): every step must use the network output of *its* control
            for step in range(24):
                u_np = rng.standard_normal((1, tc.Du))
                M_t, b_t = tc.net(u_np)
                jt = lc.call(rec, "affine_joint_transformation",
                             lambda: c.affine_joint_transformation(p, u=J(u_np)), info)
                if jt is None:
                    break
                mu_ref = np.concatenate([tp.mu, np.einsum("rab,rb->ra", M_t, tp.mu) + b_t], axis=1)
                C_ref = np.einsum("rab,rbc->rac", M_t, tp.Sigma)
                rec.close("control stream: joint mu", jt.mu, mu_ref,
                          ns=np.max(np.abs(mu_ref)) + 1e-12, detail=dict(info, step=step),
                          mech="control-stream-joint-mu")
                rec.close("control stream: cross-covariance", np.asarray(jt.Sigma)[:, Dx:, :Dx],
                          C_ref, ns=np.max(np.abs(tj.Sigma_xy)), detail=dict(info, step=step),
                          mech="control-stream-joint-Sigma")
        if rep == 0 and Rc * Rx > 1:
            rec.sample({"case": info, "M": tc.M, "b": tc.b, "Sigma_y": tc.Sigma, "mu_x": tp.mu,
                        "Sigma_x": tp.Sigma, "z": z, "ln_joint": ly + lx})
