"""C10 - set_y returns the likelihood x -> p(y|x) including its normaliser."""
import math

import numpy as np

from .. import build, core, gen
from .. import oracles as orc
from ..gen import J, JI
from . import lincommon as lc

PROP = "C10"
HOSTILE = ('scale', 'special')
MONITORS = ("WF", "SPEC", "FORM")
REQUIRED_MONITORS = ("WF",)
ANCHORS = [("conditional.py", "ConditionalGaussianPDF.set_y"),
           ("conditional.py", "ConditionalIdentityGaussianPDF.set_y"),
           ("conditional.py", "ConditionalIdentityDiagGaussianPDF.set_y"),
           ("conditional.py", "NNControlGaussianConditional.set_y")]
RULE = ("cell = (conditional class, (Dx,Dy) with Dx != Dy included, mode in {R=1 with N in {1,2,5} "
        "observations, R=N>1}); oracle: set_y(y).evaluate_ln(x)[n, m] = ln N(y_n; M x_m + b, Sigma) on "
        "a grid of 4 x and N y; also equality with cond(x)(y) read from the library; the factor must "
        "be a well-formed batch with one component per observation: slice, product() and multiply "
        "with a prior compared with the oracle sums; non-trivial: all; distinct = cell tuple")

DIMS_Q = [(1, 1), (2, 1), (1, 2), (2, 2), (3, 2), (2, 3), (4, 4), (5, 2)]
DIMS_T = DIMS_Q + [(3, 1), (1, 3), (3, 3), (4, 2), (2, 4), (5, 3), (2, 6)]


def cells(tier, seed):
    out = []
    dims = DIMS_Q if tier == "quick" else DIMS_T
    reps = 2 if tier == "quick" else 10
    for ck in build.COND_KINDS:
        for (Dx, Dy) in dims:
            if ck.startswith("identity") and Dx != Dy:
                continue
            for (R, N) in ((1, 1), (1, 2), (1, 5), (3, 3), (6, 6)):
                out.append({"ck": ck, "Dx": Dx, "Dy": Dy, "R": R, "N": N, "reps": reps,
                            "group": [Dx, Dy, R, N], "cost": 1.0})
    return out


def run_cell(cell, rec, seed):
    ck, Dx, Dy, R, N = (cell[k] for k in ("ck", "Dx", "Dy", "R", "N"))
    for rep in range(cell["reps"]):
        rng = gen.rng_for(seed, "C10", ck, Dx, Dy, R, N, rep)
        kappa = float(rng.choice(gen.KAPPAS))
        c, tc, kw = build.mk_conditional(ck, rng, R, Dy, Dx, kappa=kappa)
        info = {"ck": ck, "Dx": Dx, "Dy": Dy, "R": R, "N": N, "kappa": kappa}
        rec.cell([ck, Dx, Dy, R, N], True)
        y = gen.vec(rng, N, Dy, scale=1.5)
        x = gen.vec(rng, 4, Dx, scale=1.5)
        x[-1] *= 5.0
        Mb = np.broadcast_to(tc.M, (N, Dy, Dx))
        bb = np.broadcast_to(tc.b, (N, Dy))
        Sb = np.broadcast_to(tc.Sigma, (N, Dy, Dy))
        # ref[n, m] = ln N(y_n; M_n x_m + b_n, Sigma_n)
        ref = np.stack([orc.mvn_logpdf_elem(np.tile(y[n][None], (4, 1)), x @ Mb[n].T + bb[n],
                                            np.tile(Sb[n][None], (4, 1, 1))) for n in range(N)])
        Lam = orc.inv(Sb)
        ns = 1.0 + np.abs(ref) + 0.5 * Dy * orc.LN2PI + np.stack(
            [np.einsum("ma,ab,mb->m", np.abs(x @ Mb[n].T) + np.abs(bb[n]) + np.abs(y[n]),
                       np.abs(Lam[n]), np.abs(x @ Mb[n].T) + np.abs(bb[n]) + np.abs(y[n]))
             for n in range(N)])
        if R == 1 and rng.integers(0, 2):
            # the same conditional is first used with another number of observations
            lc.call(rec, "set_y(other N)", lambda: c.set_y(J(gen.vec(rng, N + 2, Dy)), **kw), info)
        f = lc.call(rec, "set_y", lambda: c.set_y(J(y), **kw), info)
        if f is None:
            continue
        got = lc.call(rec, "evaluate_ln", lambda: f.evaluate_ln(J(x)), info)
        if got is not None:
            g = np.asarray(got)
            d = dict(info)
            if g.shape == ref.shape:
                res = g - ref
                d["residual_const"] = float(np.mean(res))
                d["residual_spread"] = float(np.max(np.abs(res - np.mean(res))))
                d["expected_offset_if_Dx_used"] = 0.5 * (Dy - Dx) * math.log(2 * math.pi)
                d["ns_max"] = float(np.max(ns))
            rec.close("likelihood value", g, ref, ns=ns, detail=d, mech=f"set_y-value:{ck}")
        # library-internal: cond(x)(y)
        if ck != "nn" and got is not None and np.asarray(got).shape == ref.shape:
            q = lc.call(rec, "condition_on_x", lambda: c.condition_on_x(J(x)), info)
            if q is not None:
                ev = np.asarray(q.evaluate_ln(J(y))).reshape(R, 4, N)  # [r, m, n]
                lib = np.stack([ev[min(n, R - 1) if R > 1 else 0, :, n] for n in range(N)])
                d = dict(info, residual_const=float(np.mean(np.asarray(got) - lib)),
                         residual_spread=float(np.max(np.abs(np.asarray(got) - lib - np.mean(
                             np.asarray(got) - lib)))),
                         expected_offset_if_Dx_used=0.5 * (Dy - Dx) * math.log(2 * math.pi),
                         ns_max=float(np.max(ns)))
                rec.close("set_y(y)(x) == cond(x)(y)", got, lib, ns=ns, detail=d,
                          mech=f"set_y-vs-cond:{ck}")
        # behaves as a batch with one component per observation
        rec.true("one component per observation", f.R == N, mech=f"set_y-R:{ck}",
                 detail=dict(info, factor_R=int(f.R)))
        if f.R != N:
            continue
        idx = rng.integers(0, N, size=3)
        s = lc.call(rec, "slice", lambda: f.slice(JI(idx)), info)
        if s is not None and got is not None:
            gs = lc.call(rec, "evaluate_ln", lambda: s.evaluate_ln(J(x)), info)
            if gs is not None:
                rec.close("slice of likelihood batch", gs, np.asarray(got)[idx], ns=ns[idx],
                          detail=info, mech=f"set_y-slice:{ck}")
        pr = lc.call(rec, "product", lambda: f.product(), info)
        if pr is not None and got is not None:
            gp = lc.call(rec, "evaluate_ln", lambda: pr.evaluate_ln(J(x)), info)
            if gp is not None:
                rec.close("product of likelihood batch", gp, np.asarray(got).sum(0, keepdims=True),
                          ns=ns.sum(0, keepdims=True), detail=info, mech=f"set_y-product:{ck}")
        prior, tp = build.mk_pdf(rng, 1, Dx, kappa=10.0)
        pm = lc.call(rec, "multiply", lambda: prior.multiply(f), info)
        if pm is not None and got is not None:
            gm = lc.call(rec, "evaluate_ln", lambda: pm.evaluate_ln(J(x)), info)
            if gm is not None:
                lp = orc.mvn_logpdf(x, tp.mu, tp.Sigma)
                rec.close("prior x likelihood batch", gm, np.asarray(got) + lp,
                          ns=ns + orc.mvn_logpdf_abs(x, tp.mu, tp.Sigma), detail=info,
                          mech=f"set_y-multiply:{ck}")
        if rep == 0 and N > 1:
            rec.sample({"case": info, "y": y, "x": x, "ln_lik": ref})


def classify(mech, d):
    """the known normaliser defect: residual constant over all (x,y) probes and equal to
    (Dy-Dx)/2 ln 2pi... precisely: the library subtracts Dx/2 ln 2pi instead of Dy/2 ln 2pi."""
    if mech.startswith(("set_y-value:", "set_y-vs-cond:")) and "residual_const" in d:
        exp = d.get("expected_offset_if_Dx_used", 0.0)
        tol = 1e-8 * d.get("ns_max", 1.0)  # the same allowance the comparison itself gets
        if d.get("Dx") != d.get("Dy") and abs(d["residual_const"] - exp) <= tol \
                and d["residual_spread"] <= tol:
            return "set_y-normaliser-uses-Dx:" + mech.split(":", 1)[1]
    return mech
