"""C18 - JAX transformations and round trips preserve values."""
import numpy as np

from .. import build, core, gen
from .. import oracles as orc
from ..gen import J, JI
from .c12 import params_of

PROP = "C18"
MONITORS = ("WF", "FORM")
HOSTILE = ('special',)
ANCHORS = [("utils/dataclass.py", "register_dataclass_type_with_jax_tree_util"),
           ("factor.py", "ConjugateFactor.to_dict"), ("factor.py", "ConjugateFactor.from_dict"),
           ("factor.py", "OneRankFactor.to_dict"), ("factor.py", "LinearFactor.to_dict"),
           ("factor.py", "ConstantFactor.to_dict"), ("pdf.py", "GaussianPDF.to_dict")]
ANCHORS_OPTIONAL = True
RULE = ("cells: (a) program templates f(raw arrays) -> arrays covering every class and integral "
        "(objects constructed inside): eager reference vs jit, vs vmap over a data axis (against the "
        "stacked eager results), and grad of a scalar output w.r.t. every continuous input against "
        "Richardson central differences along a random (symmetric for covariances) direction; (b) "
        "boundary round trips of an instance of every factor / measure / density / linear conditional "
        "class with empty and populated caches: tree_flatten/unflatten, jit(identity), object as jit "
        "argument, object as jit result, lax.scan with a density carry, to_dict/from_dict; the result "
        "must be of the same class and evaluate to the same function at probe points; non-trivial: "
        "all; distinct = (template | class, variant, transformation)")


# ------------------------------------------------------------------------------ templates
def T_product(rng, D=2, R=2):
    L = build.lib()
    inp = {"Lam": gen.spd_batch(rng, R, D, 10.0), "nu": gen.vec(rng, R, D), "lb": gen.vec(rng, R),
           "v": gen.vec(rng, 2, D), "g": rng.uniform(0.5, 1.5, 2), "fnu": gen.vec(rng, 2, D),
           "x": gen.vec(rng, 3, D)}

    def f(i):
        u = L.measure.GaussianMeasure(Lambda=i["Lam"], nu=i["nu"], ln_beta=i["lb"])
        fac = L.factor.OneRankFactor(v=i["v"], g=i["g"], nu=i["fnu"])
        r = u.multiply(fac, update_full=True)
        return r.log_integral(), r.integrate("x"), r.evaluate_ln(i["x"])
    return inp, f, "x", ["Lam", "nu", "lb", "v", "g", "fnu", "x"], {"Lam": "sym"}


def T_cached_product(rng, D=2, R=1):
    L = build.lib()
    inp = {"Sig": gen.spd_batch(rng, R, D, 10.0), "mu": gen.vec(rng, R, D),
           "v": gen.vec(rng, 2, D), "lnu": gen.vec(rng, 2, D), "lb": gen.vec(rng, 2)}

    def f(i):
        p = L.pdf.GaussianPDF(Sigma=i["Sig"], mu=i["mu"])  # cached covariance -> Sherman-Morrison
        r = p.multiply(L.factor.OneRankFactor(v=i["v"]), update_full=True)
        r2 = r.multiply(L.factor.LinearFactor(nu=i["lnu"], ln_beta=i["lb"]), update_full=True)
        d = r2.get_density()
        return r2.log_integral(), d.mu, d.Sigma, r2.integrate("xx'")
    return inp, f, "mu", ["Sig", "mu", "v", "lnu", "lb"], {"Sig": "sym"}


def T_density(rng, D=3, R=2):
    L = build.lib()
    inp = {"Sig": gen.spd_batch(rng, R, D, 10.0), "mu": gen.vec(rng, R, D),
           "Sig2": gen.spd_batch(rng, 1, D, 10.0), "mu2": gen.vec(rng, 1, D), "x": gen.vec(rng, 2, 2)}

    def f(i):
        p = L.pdf.GaussianPDF(Sigma=i["Sig"], mu=i["mu"])
        q = L.pdf.GaussianPDF(Sigma=i["Sig2"], mu=i["mu2"])
        # index sets are static configuration: plain NumPy arrays, as a user would write under jit
        m = p.get_marginal(np.array([2, 0]))
        c = p.condition_on(np.array([1]))
        return (p.entropy(), p.kl_divergence(q), m.evaluate_ln(i["x"]),
                c.condition_on_x(i["x"][:, :1]).mu)
    return inp, f, "x", ["Sig", "mu", "Sig2", "mu2", "x"], {"Sig": "sym", "Sig2": "sym"}


def T_diag(rng, D=3, R=2):
    L = build.lib()
    inp = {"s": rng.uniform(0.5, 2.0, (R, D)), "mu": gen.vec(rng, R, D), "x": gen.vec(rng, 2, D),
           "A": gen.vec(rng, 2, D), "a": gen.vec(rng, 2)}

    def f(i):
        from jax import numpy as jnp
        Sig = i["s"][:, :, None] * jnp.eye(D)[None]
        p = L.pdf.GaussianDiagPDF(Sigma=Sig, mu=i["mu"])
        return (p.evaluate_ln(i["x"]), p.integrate("(Ax+a)'(Bx+b)", A_mat=i["A"], a_vec=i["a"],
                                                    B_mat=i["A"], b_vec=i["a"]), p.entropy())
    return inp, f, "x", ["s", "mu", "x", "A", "a"], {}


def T_kalman(rng, Dz=2, Dy=1):
    L = build.lib()
    A = gen.lin_map(rng, 1, Dz, Dz, 0.3, 0.9)
    inp = {"A": A, "b": gen.vec(rng, 1, Dz), "Q": gen.spd_batch(rng, 1, Dz, 10.0, 0.5),
           "C": gen.lin_map(rng, 1, Dy, Dz), "d": gen.vec(rng, 1, Dy),
           "R": gen.spd_batch(rng, 1, Dy, 10.0, 0.5), "m0": gen.vec(rng, 1, Dz),
           "P0": gen.spd_batch(rng, 1, Dz, 10.0), "y": gen.vec(rng, 1, Dy)}

    def f(i):
        p = L.pdf.GaussianPDF(Sigma=i["P0"], mu=i["m0"])
        tr = L.conditional.ConditionalGaussianPDF(M=i["A"], b=i["b"], Sigma=i["Q"])
        ob = L.conditional.ConditionalGaussianPDF(M=i["C"], b=i["d"], Sigma=i["R"])
        pred = tr.affine_marginal_transformation(p)
        py = ob.affine_marginal_transformation(pred)
        post = ob.affine_conditional_transformation(pred).condition_on_x(i["y"])
        return py.evaluate_ln(i["y"]), post.mu, post.Sigma
    return inp, f, "y", ["A", "b", "Q", "C", "d", "R", "m0", "P0", "y"], {"Q": "sym", "R": "sym",
                                                                            "P0": "sym"}


def T_joint(rng, Dx=2, Dy=2):
    L = build.lib()
    inp = {"M": gen.lin_map(rng, 1, Dy, Dx), "b": gen.vec(rng, 1, Dy),
           "S": gen.spd_batch(rng, 1, Dy, 10.0), "Sx": gen.spd_batch(rng, 2, Dx, 10.0),
           "mx": gen.vec(rng, 2, Dx), "z": gen.vec(rng, 2, Dx + Dy)}

    def f(i):
        c = L.conditional.ConditionalGaussianPDF(M=i["M"], b=i["b"], Sigma=i["S"])
        p = L.pdf.GaussianPDF(Sigma=i["Sx"], mu=i["mx"])
        j = c.affine_joint_transformation(p)
        return j.evaluate_ln(i["z"]), c.mutual_information(p), c.conditional_entropy(p)
    return inp, f, "z", ["M", "b", "S", "Sx", "mx", "z"], {"S": "sym", "Sx": "sym"}


def T_set_y(rng, Dx=2, Dy=2, N=3):
    L = build.lib()
    inp = {"M": gen.lin_map(rng, 1, Dy, Dx), "b": gen.vec(rng, 1, Dy),
           "S": gen.spd_batch(rng, 1, Dy, 10.0), "Sx": gen.spd_batch(rng, 1, Dx, 10.0),
           "mx": gen.vec(rng, 1, Dx), "y": gen.vec(rng, N, Dy)}

    def f(i):
        c = L.conditional.ConditionalGaussianPDF(M=i["M"], b=i["b"], Sigma=i["S"])
        p = L.pdf.GaussianPDF(Sigma=i["Sx"], mu=i["mx"])
        u = p.multiply(c.set_y(i["y"]).product())
        d = u.get_density()
        return u.log_integral(), d.mu, d.Sigma
    return inp, f, "y", ["M", "b", "S", "Sx", "mx", "y"], {"S": "sym", "Sx": "sym"}


def T_identity(rng, D=2):
    L = build.lib()
    inp = {"S": gen.spd_batch(rng, 1, D, 10.0), "Sx": gen.spd_batch(rng, 2, D, 10.0),
           "mx": gen.vec(rng, 2, D), "y": gen.vec(rng, 2, D)}

    def f(i):
        c = L.conditional.ConditionalIdentityGaussianPDF(Sigma=i["S"])
        p = L.pdf.GaussianPDF(Sigma=i["Sx"], mu=i["mx"])
        m = c.affine_marginal_transformation(p)
        post = c.affine_conditional_transformation(p)
        return m.evaluate_ln(i["y"]), post.condition_on_x(i["y"][:1]).mu, \
            c.integrate_log_conditional_y(p, y=i["y"])
    return inp, f, "y", ["S", "Sx", "mx", "y"], {"S": "sym", "Sx": "sym"}


def T_poly(rng, D=2, R=2):
    L = build.lib()
    inp = {"Lam": gen.spd_batch(rng, R, D, 10.0), "nu": gen.vec(rng, R, D),
           "A": gen.vec(rng, 2, D), "a": gen.vec(rng, 2), "B": gen.vec(rng, 3, D),
           "b": gen.vec(rng, 3)}

    def f(i):
        u = L.measure.GaussianMeasure(Lambda=i["Lam"], nu=i["nu"])
        q4 = u.integrate("(Ax+a)(Bx+b)'(Cx+c)(Dx+d)'", A_mat=i["A"], a_vec=i["a"], B_mat=i["B"],
                         b_vec=i["b"], C_mat=i["B"], c_vec=i["b"], D_mat=i["A"], d_vec=i["a"])
        q3 = u.integrate("(Ax+a)'(Bx+b)(Cx+c)'", A_mat=i["A"], a_vec=i["a"], B_mat=i["A"],
                         b_vec=i["a"], C_mat=i["B"], c_vec=i["b"])
        return q4, q3, u.integrate("xb'xx'", b_vec=i["A"][0])
    return inp, f, "nu", ["Lam", "nu", "A", "a", "B", "b"], {"Lam": "sym"}


def T_logfactor(rng, D=2, R=2):
    L = build.lib()
    inp = {"Sig": gen.spd_batch(rng, R, D, 10.0), "mu": gen.vec(rng, R, D),
           "FL": gen.psd_batch(rng, 1, D, rank=1), "fnu": gen.vec(rng, 1, D), "flb": gen.vec(rng, 1)}

    def f(i):
        p = L.pdf.GaussianPDF(Sigma=i["Sig"], mu=i["mu"])
        fac = L.factor.ConjugateFactor(Lambda=i["FL"], nu=i["fnu"], ln_beta=i["flb"])
        return (p.integrate("log u(x)", factor=fac),)
    return inp, f, "mu", ["Sig", "mu", "FL", "fnu", "flb"], {"Sig": "sym", "FL": "sym"}


def T_lrbf(rng, Dx=1, Dy=2, Dk=2):
    L = build.lib()
    inp = {"M": gen.vec(rng, 1, Dy, Dx + Dk, scale=0.8), "b": gen.vec(rng, 1, Dy),
           "c": gen.vec(rng, Dk, Dx), "ls": rng.uniform(0.8, 1.5, (Dk, Dx)),
           "S": gen.spd_batch(rng, 1, Dy, 10.0), "Sx": gen.spd_batch(rng, 1, Dx, 1.0, 0.5),
           "mx": gen.vec(rng, 1, Dx), "y": gen.vec(rng, 1, Dy)}

    def f(i):
        c = L.approx.LRBFGaussianConditional(M=i["M"], b=i["b"], mu=i["c"], length_scale=i["ls"],
                                             Sigma=i["S"])
        p = L.pdf.GaussianPDF(Sigma=i["Sx"], mu=i["mx"])
        m = c.affine_marginal_transformation(p)
        return m.mu, m.Sigma, c.integrate_log_conditional_y(p, y=i["y"])
    return inp, f, "y", ["M", "b", "c", "ls", "S", "Sx", "mx", "y"], {"S": "sym", "Sx": "sym"}


def T_lsem(rng, Dx=2, Dy=1, Dk=2):
    L = build.lib()
    inp = {"M": gen.vec(rng, 1, Dy, Dx + Dk, scale=0.8), "b": gen.vec(rng, 1, Dy),
           "W": gen.vec(rng, Dk, Dx + 1, scale=0.6), "S": gen.spd_batch(rng, 1, Dy, 10.0),
           "Sx": gen.spd_batch(rng, 1, Dx, 10.0, 0.5), "mx": gen.vec(rng, 1, Dx)}

    def f(i):
        c = L.approx.LSEMGaussianConditional(M=i["M"], b=i["b"], W=i["W"], Sigma=i["S"])
        p = L.pdf.GaussianPDF(Sigma=i["Sx"], mu=i["mx"])
        j = c.affine_joint_transformation(p)
        post = c.affine_conditional_transformation(p)
        return j.mu, j.Sigma, post.M
    return inp, f, "mx", ["M", "b", "W", "S", "Sx", "mx"], {"S": "sym", "Sx": "sym"}


def T_het(kind):
    def make(rng, Dx=1, Dy=2, Da=2, Dk=1):
        L = build.lib()
        cls = {"exp": L.approx.HeteroscedasticExpConditional,
               "cosh": L.approx.HeteroscedasticCoshM1Conditional,
               "step": L.approx.HeteroscedasticHeavisideConditional,
               "relu": L.approx.HeteroscedasticReLUConditional}[kind]
        # (not gen.vec: an exactly zero input weight is outside what the step / rectified-linear
        # links support - they divide by it)
        W = rng.standard_normal((Dk, Dx + 1)) * 0.6
        W[:, 0] = 0.4
        inp = {"M": gen.lin_map(rng, 1, Dy, Dx), "b": gen.vec(rng, 1, Dy),
               "A": gen.lin_map(rng, 1, Dy, Da, 0.6, 1.5), "W": W,
               "Sx": gen.spd_batch(rng, 1, Dx, 1.0, 0.5), "mx": gen.vec(rng, 1, Dx),
               "y": gen.vec(rng, 1, Dy)}

        def f(i):
            c = cls(M=i["M"], b=i["b"], A=i["A"], W=i["W"])
            p = L.pdf.GaussianPDF(Sigma=i["Sx"], mu=i["mx"])
            m = c.affine_marginal_transformation(p)
            return c.integrate_log_conditional_y(p, y=i["y"]), m.mu, m.Sigma
        return inp, f, "y", ["M", "b", "A", "W", "Sx", "mx", "y"], {"Sx": "sym"}
    return make


def T_truncated(rng, R=2):
    from gaussian_toolbox.experimental import truncated_measure as tm
    L = build.lib()
    inp = {"lam": rng.uniform(0.5, 2.0, (R, 1, 1)), "nu": gen.vec(rng, R, 1), "lb": gen.vec(rng, R),
           "lo": -rng.uniform(0.5, 1.5, (R, 1)), "hi": rng.uniform(0.5, 1.5, (R, 1))}

    def f(i):
        u = L.measure.GaussianMeasure(Lambda=i["lam"], nu=i["nu"], ln_beta=i["lb"])
        t = tm.TruncatedGaussianMeasure(measure=u, lower_limit=i["lo"], upper_limit=i["hi"])
        return t.integrate("1"), t.integrate("x"), t.integrate("x**2"), t.integrate("x**k", k=3)
    return inp, f, "nu", ["lam", "nu", "lb", "lo", "hi"], {}


TEMPLATES = {
    "product": T_product, "cached_product": T_cached_product, "density": T_density,
    "diag": T_diag, "kalman": T_kalman, "joint": T_joint, "set_y": T_set_y,
    "identity": T_identity, "poly": T_poly, "logfactor": T_logfactor, "lrbf": T_lrbf,
    "lsem": T_lsem, "het_exp": T_het("exp"), "het_cosh": T_het("cosh"),
    "het_step": T_het("step"), "het_relu": T_het("relu"), "truncated": T_truncated,
}
LOOSE_GRAD = {"het_exp": 1e-4, "het_cosh": 1e-4, "het_step": 1e-4, "het_relu": 1e-4}
CLASSES = ["ConjugateFactor", "OneRankFactor", "LinearFactor", "ConstantFactor", "GaussianMeasure",
           "GaussianDiagMeasure", "GaussianPDF", "GaussianDiagPDF", "ConditionalGaussianPDF",
           "ConditionalGaussianDiagPDF", "ConditionalIdentityGaussianPDF",
           "ConditionalIdentityDiagGaussianPDF", "NNControlGaussianConditional"]


def cells(tier, seed):
    out = []
    reps = 1 if tier == "quick" else 4
    for name in TEMPLATES:
        for rep in range(reps):
            out.append({"part": "program", "template": name, "rep": rep, "group": [name, rep],
                        "cost": 4.0 if name.startswith("het") else 2.0})
    for cls in CLASSES:
        out.append({"part": "roundtrip", "cls": cls, "group": ["rt", cls], "cost": 2.0})
    out.append({"part": "scan", "group": ["scan"], "cost": 2.0})
    # random compositions from the C04 operation grammar, traced as a whole
    nprog = 24 if tier == "quick" else 160
    for i in range(nprog):
        out.append({"part": "composition", "prog": i, "maxlen": 4 if tier == "quick" else 6,
                    "D": 1 + i % 3, "group": ["comp", i % 16], "cost": 3.0})
    return out


def _call(rec, what, fn, info, mech):
    try:
        return fn()
    except Exception as e:
        rec.evaluations += 1
        rec.fail(f"{mech}:{type(e).__name__}@{core.exc_site(e)}",
                 dict(info, op=what, exc=core.exc_info(e)))
        return None


def _flat(outs):
    return [np.asarray(o, dtype=float) for o in outs]


def run_program(cell, rec, seed):
    import jax
    from jax import numpy as jnp

    name, rep = cell["template"], cell["rep"]
    rng = gen.rng_for(seed, "C18", name, rep)
    inp, f, vax, cont, sym = TEMPLATES[name](rng)
    ji = {k: J(v) for k, v in inp.items()}
    info = {"template": name, "rep": rep}
    ref = _call(rec, "eager", lambda: _flat(f(ji)), info, f"eager-raises:{name}")
    if ref is None:
        return
    ns = [1.0 + np.max(np.abs(r)) if r.size else 1.0 for r in ref]
    # ---- jit
    rec.cell([name, "jit"], True)
    got = _call(rec, "jit", lambda: _flat(jax.jit(f)(ji)), info, f"jit-raises:{name}")
    if got is not None:
        for k, (g, r) in enumerate(zip(got, ref)):
            rec.close(f"jit == eager [{name} out {k}]", g, r, ns=ns[k], detail=info,
                      mech=f"jit-differs:{name}")
    # ---- vmap over a data axis
    if vax is not None:
        rec.cell([name, "vmap"], True)
        B = 3
        stack = np.stack([inp[vax] + 0.1 * k for k in range(B)])
        axes = ({k: (0 if k == vax else None) for k in ji},)
        jb = dict(ji)
        jb[vax] = J(stack)
        got = _call(rec, "vmap", lambda: _flat(jax.vmap(f, in_axes=axes)(jb)), info,
                    f"vmap-raises:{name}")
        if got is not None:
            parts = []
            for k in range(B):
                jk = dict(ji)
                jk[vax] = J(stack[k])
                parts.append(_flat(f(jk)))
            for k in range(len(ref)):
                exp = np.stack([p[k] for p in parts])
                rec.close(f"vmap == stacked eager [{name} out {k}]", got[k], exp,
                          ns=1.0 + np.max(np.abs(exp)), detail=info, mech=f"vmap-differs:{name}")
    # ---- grad vs finite differences (directional, Richardson)
    rec.cell([name, "grad"], True)
    wts = [gen.vec(gen.rng_for(seed, "C18w", name, k), *r.shape) for k, r in enumerate(ref)]

    def scalar(i):
        outs = f(i)
        return sum(jnp.sum(jnp.asarray(o) * J(w)) for o, w in zip(outs, wts))

    g = _call(rec, "grad", lambda: jax.grad(scalar)(ji), info, f"grad-raises:{name}")
    if g is None:
        return
    s0 = float(scalar(ji))
    for k in cont:
        V = gen.vec(rng, *inp[k].shape)
        if sym.get(k) == "sym":
            V = 0.5 * (V + np.swapaxes(V, -1, -2))
        V = V / (np.linalg.norm(V) + 1e-300)
        gd = float(np.sum(np.asarray(g[k]) * V))
        if not np.isfinite(gd):
            rec.evaluations += 1
            rec.fail(f"grad-nonfinite:{name}", dict(info, input=k))
            continue

        def fd(h):
            a, b = dict(ji), dict(ji)
            a[k] = J(inp[k] + h * V)
            b[k] = J(inp[k] - h * V)
            return (float(scalar(a)) - float(scalar(b))) / (2 * h)

        h = 1e-3 * (1.0 + np.max(np.abs(inp[k])))
        d1, d2 = fd(h), fd(h / 2)
        rich = (4 * d2 - d1) / 3
        est = abs(d2 - d1)
        scale = 1.0 + abs(s0) + abs(rich)
        tol = max(LOOSE_GRAD.get(name, 1e-6) * scale, 10 * est)
        rec.close(f"grad == finite differences [{name} d/d{k}]", gd, rich, ns=tol / 1e-8,
                  detail=dict(info, input=k, fd_error_estimate=est), mech=f"grad-differs:{name}")
    if rep == 0:
        rec.sample({"template": name, "inputs": {k: list(np.shape(v)) for k, v in inp.items()},
                    "eager_outputs": ref[:2]})


# ------------------------------------------------------------------------------ round trips
def instance(cls, rng, cached, R=2, D=2):
    L = build.lib()
    if cls == "NNControlGaussianConditional":
        o, t, kw = build.mk_conditional("nn", rng, 1, D, D + 1, kappa=10.0)
        t["u"] = kw["u"]
        return o, t
    if cls == "ConjugateFactor":
        o, t = build.mk_factor("general", rng, R, D)
    elif cls == "OneRankFactor":
        o, t = build.mk_factor("rank1", rng, R, D)
    elif cls == "LinearFactor":
        o, t = build.mk_factor("linear", rng, R, D)
    elif cls == "ConstantFactor":
        o, t = build.mk_factor("constant", rng, R, D)
    elif cls in ("GaussianMeasure", "GaussianDiagMeasure"):
        o, t = build.mk_measure("measure" if cls == "GaussianMeasure" else "diag_measure", rng, R,
                                D, kappa=10.0)
        if cached:
            o.integrate()
    elif cls in ("GaussianPDF", "GaussianDiagPDF"):
        o, t = build.mk_pdf(rng, R, D, kappa=10.0, diag=cls == "GaussianDiagPDF")
    else:
        kind = {"ConditionalGaussianPDF": "full", "ConditionalGaussianDiagPDF": "diag",
                "ConditionalIdentityGaussianPDF": "identity",
                "ConditionalIdentityDiagGaussianPDF": "identity_diag"}[cls]
        o, t, _ = build.mk_conditional(kind, rng, R, D, D, kappa=10.0)
    return o, t


def probe(o, x, u=None):
    """the function an object represents, at probe points (for measures also its reported mass
    and first moment, which read the cached log-partition function)."""
    if hasattr(o, "evaluate_ln"):
        v = np.asarray(o.evaluate_ln(x)).ravel()
        if hasattr(o, "log_integral"):
            v = np.concatenate([v, np.asarray(o.log_integral()).ravel(),
                                np.asarray(o.integrate("x")).ravel()])
        return v
    if u is not None:
        q = o.condition_on_x_u(x, u)
        return np.asarray(q.evaluate_ln(J(np.zeros((2, q.D)))))
    return np.asarray(o.condition_on_x(x).evaluate_ln(x))


def run_roundtrip(cell, rec, seed):
    import jax
    from jax import numpy as jnp

    cls = cell["cls"]
    is_cond = "Conditional" in cls
    variants = [(False, 2, 2, 0)]
    if cls in ("GaussianMeasure", "GaussianDiagMeasure"):
        variants.append((True, 2, 2, 0))
    # further instances of the same class cross the same boundaries afterwards in the same
    # process: one with a different configuration (dimension, batch), one with the SAME shapes
    # but other values / another control function of the same factory, which goes through the
    # very same jitted functions (compilation cache keyed on the pytree structure)
    variants.append((False, 1, 3, 0))
    variants.append((False, 2, 2, 1))
    if cls in ("GaussianPDF", "GaussianDiagPDF"):
        variants.append(("updated", 2, 2, 2))
    jitted = {}
    for (cached, R_, D_, inst) in variants:
        rng = gen.rng_for(seed, "C18rt", cls, cached, R_, D_, inst)
        o, t = instance(cls, rng, cached is True, R=R_, D=D_)
        if cached == "updated":
            # a density that was changed in place before it crosses the boundary
            d_new, _ = build.mk_pdf(rng, 1, D_, kappa=10.0, scale=3.0, diag=cls == "GaussianDiagPDF")
            o.update(JI([1]), d_new)
        u = t.get("u") if isinstance(t, dict) else None
        x = J(gen.vec(rng, 3, o.Dx if is_cond else D_))
        ref = probe(o, x, u)
        ns = 1.0 + np.max(np.abs(ref))
        info = {"class": cls, "cached": cached, "R": R_, "D": D_, "instance": inst}
        tag = f"{cls}{'[' + str(cached) + ']' if cached else ''}[R={R_},D={D_},#{inst}]"

        def same(name, o2, mech):
            rec.cell([tag, name], True)
            rec.true(f"{name}: same class", type(o2).__name__ == cls, mech=f"{mech}-class:{cls}",
                     detail=dict(info, got=type(o2).__name__))
            v = _call(rec, name + " probe", lambda: probe(o2, x, u), info,
                      f"{mech}-probe-raises:{cls}")
            if v is not None:
                rec.close(f"{name}: same function", v, ref, ns=ns, detail=info,
                          mech=f"{mech}-value:{cls}")

        # tree flatten / unflatten
        r = _call(rec, "tree_flatten/unflatten",
                  lambda: jax.tree_util.tree_unflatten(*reversed(jax.tree_util.tree_flatten(o))),
                  info, f"flatten-raises:{cls}")
        if r is not None:
            same("tree round trip", r, "flatten")
        # jit identity
        jid = jitted.setdefault(("id", R_, D_), jax.jit(lambda a: a))
        r = _call(rec, "jit(identity)", lambda: jid(o), info, f"jit-identity-raises:{cls}")
        if r is not None:
            same("jit(identity)", r, "jit-identity")
        # object as jit argument
        if u is not None:
            fn = lambda a, xx, uu: a.condition_on_x_u(xx, uu).evaluate_ln(jnp.zeros((2, D_)))
        elif is_cond:
            fn = lambda a, xx, uu: a.condition_on_x(xx).evaluate_ln(xx)
        elif hasattr(o, "log_integral"):
            fn = lambda a, xx, uu: jnp.concatenate([a.evaluate_ln(xx).ravel(),
                                                    a.log_integral().ravel(),
                                                    a.integrate("x").ravel()])
        else:
            fn = lambda a, xx, uu: a.evaluate_ln(xx).ravel()
        jfn = jitted.setdefault(("arg", R_, D_), jax.jit(fn))
        rec.cell([tag, "jit argument"], True)
        v = _call(rec, "jit argument", lambda: np.asarray(jfn(o, x, u if u is not None else x)),
                  info, f"jit-argument-raises:{cls}")
        if v is not None:
            rec.close("object as jit argument: same function", v.ravel(), np.asarray(ref).ravel(),
                      ns=ns, detail=info, mech=f"jit-argument-value:{cls}")
        # object as jit result (constructed inside from raw arrays)
        ctor = type(o)
        fields = {k: v for k, v in o.__dict__.items() if k in getattr(ctor, "__dataclass_fields__", {})
                  and ctor.__dataclass_fields__[k].init and v is not None}
        arrs = {k: v for k, v in fields.items() if hasattr(v, "shape")}
        stat = {k: v for k, v in fields.items() if not hasattr(v, "shape")}
        if cached is False:
            r = _call(rec, "jit result", lambda: jax.jit(lambda a: ctor(**a, **stat))(arrs), info,
                      f"jit-result-raises:{cls}")
            if r is not None:
                same("jit result", r, "jit-result")
        # to_dict / from_dict
        if hasattr(o, "to_dict"):
            r = _call(rec, "to_dict/from_dict", lambda: type(o).from_dict(o.to_dict()), info,
                      f"dict-roundtrip-raises:{cls}")
            if r is not None:
                same("to_dict/from_dict", r, "dict-roundtrip")


def run_scan(cell, rec, seed):
    """lax.scan with a density carry: one Kalman step per iteration, against the eager loop."""
    import jax
    from jax import numpy as jnp

    L = build.lib()
    rng = gen.rng_for(seed, "C18scan")
    Dz, Dy, T = 2, 1, 4
    A = gen.lin_map(rng, 1, Dz, Dz, 0.3, 0.9)
    tr = L.conditional.ConditionalGaussianPDF(M=J(A), b=J(gen.vec(rng, 1, Dz)),
                                              Sigma=J(gen.spd_batch(rng, 1, Dz, 10.0, 0.5)))
    ob = L.conditional.ConditionalGaussianPDF(M=J(gen.lin_map(rng, 1, Dy, Dz)),
                                              b=J(gen.vec(rng, 1, Dy)),
                                              Sigma=J(gen.spd_batch(rng, 1, Dy, 10.0, 0.5)))
    p0 = L.pdf.GaussianPDF(Sigma=J(gen.spd_batch(rng, 1, Dz, 10.0)), mu=J(gen.vec(rng, 1, Dz)))
    ys = J(gen.vec(rng, T, 1, Dy))
    info = {"part": "scan", "T": T}
    rec.cell(["scan", "density carry"], True)

    def step(p, y):
        pred = tr.affine_marginal_transformation(p)
        post = ob.affine_conditional_transformation(pred).condition_on_x(y)
        return post, (post.mu, post.Sigma)

    p = p0
    mus, Ss = [], []
    for t_ in range(T):
        p, (m, S) = step(p, ys[t_])
        mus.append(np.asarray(m))
        Ss.append(np.asarray(S))
    r = _call(rec, "lax.scan", lambda: jax.lax.scan(step, p0, ys), info, "scan-raises")
    if r is not None:
        pT, (m_s, S_s) = r
        rec.true("scan carry keeps its class", type(pT).__name__ == "GaussianPDF",
                 mech="scan-carry-class", detail=info)
        rec.close("scan: filtered means", m_s, np.stack(mus), ns=1.0 + np.max(np.abs(np.stack(mus))),
                  detail=info, mech="scan-value")
        rec.close("scan: filtered covariances", S_s, np.stack(Ss),
                  ns=1.0 + np.max(np.abs(np.stack(Ss))), detail=info, mech="scan-value")
        x = J(gen.vec(rng, 3, Dz))
        rec.close("scan: final density as function", pT.evaluate_ln(x), p.evaluate_ln(x),
                  ns=1.0 + np.max(np.abs(np.asarray(p.evaluate_ln(x)))), detail=info,
                  mech="scan-value")

    # the same filter with the measurement update in factor form: the carry starts as a density
    # built by its constructor and comes back from get_density() of a product (the two ways of
    # making a density must have the same tree structure)
    def step2(p, y):
        pred = tr.affine_marginal_transformation(p)
        post = pred.multiply(ob.set_y(y)).get_density()
        return post, (post.mu, post.Sigma)

    info2 = dict(info, update="prior x set_y factor, get_density")
    p = p0
    mus, Ss = [], []
    try:
        for t_ in range(T):
            p, (m, S) = step2(p, ys[t_])
            mus.append(np.asarray(m))
            Ss.append(np.asarray(S))
    except Exception as e:
        rec.count("scan_factor_form_eager_raises")
        return
    r = _call(rec, "lax.scan", lambda: jax.lax.scan(step2, p0, ys), info2, "scan-raises")
    if r is not None:
        pT, (m_s, S_s) = r
        rec.close("scan (factor form): filtered means", m_s, np.stack(mus),
                  ns=1.0 + np.max(np.abs(np.stack(mus))), detail=info2, mech="scan-value")
        rec.close("scan (factor form): filtered covariances", S_s, np.stack(Ss),
                  ns=1.0 + np.max(np.abs(np.stack(Ss))), detail=info2, mech="scan-value")


def run_composition(cell, rec, seed):
    """a random program of the C04 grammar as one function of a scalar that scales the start
    object's information vector / mean: eager vs jit, and d/ds by grad vs finite differences."""
    import jax
    from jax import numpy as jnp
    from . import c04

    i, D, maxlen = cell["prog"], cell["D"], cell["maxlen"]
    prng = gen.rng_for(seed, "C18prog", i)
    ops = c04.gen_program(prng, D, maxlen)
    # the truncated-measure based links build Python-level index logic that is exercised by the
    # templates; keep compositions to the operations of the property's round-trip list + smooth
    info = {"program": [list(map(str, o)) for o in ops]}
    rec.set_ctx(cell=cell, **info)
    key = (seed, "C18ops", i)
    try:
        c04.execute(ops, key, "A", None, rec, info)  # eager NumPy pass: domain guard only
    except c04.Stop:
        rec.count("out_of_domain")
        return
    except Exception as e:
        rec.count("eager_reference_raises")  # C04's business (same grammar), not judged here
        return

    def f(s):
        return c04.execute(ops, key, "A", None, rec, info, scale=s)

    one = jnp.asarray(1.0)
    ref = _call(rec, "eager", lambda: _flat(f(one)), info, "composition-eager-raises")
    if ref is None:
        return
    rec.cell(["composition", c04.signature(ops)], True)
    got = _call(rec, "jit", lambda: _flat(jax.jit(f)(one)), info, "composition-jit-raises")
    if got is not None:
        for k, (g, r) in enumerate(zip(got, ref)):
            rec.close(f"composition: jit == eager [out {k}]", g, r, ns=1.0 + np.max(np.abs(r)),
                      detail=info, mech="composition-jit-differs")
    wts = [gen.vec(gen.rng_for(seed, "C18cw", i, k), *r.shape) for k, r in enumerate(ref)]

    def scalar(s):
        return sum(jnp.sum(jnp.asarray(o) * J(w)) for o, w in zip(f(s), wts))

    g = _call(rec, "grad", lambda: float(jax.grad(scalar)(one)), info, "composition-grad-raises")
    if g is not None and np.isfinite(g):
        h = 1e-3
        d1 = (float(scalar(one + h)) - float(scalar(one - h))) / (2 * h)
        d2 = (float(scalar(one + h / 2)) - float(scalar(one - h / 2))) / h
        rich = (4 * d2 - d1) / 3
        est = abs(d2 - d1)
        tol = max(1e-6 * (1.0 + abs(float(scalar(one))) + abs(rich)), 10 * est)
        has_het = any(o[0] == "approx" and o[1] in build.HET_KINDS for o in ops)
        if has_het:
            tol = max(tol, 1e-4 * (1.0 + abs(rich)))
        rec.close("composition: grad == finite differences", g, rich, ns=tol / 1e-8,
                  detail=dict(info, fd_error_estimate=est), mech="composition-grad-differs")


def run_cell(cell, rec, seed):
    {"program": run_program, "roundtrip": run_roundtrip, "scan": run_scan,
     "composition": run_composition}[cell["part"]](cell, rec, seed)
