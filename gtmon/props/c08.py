"""C08 - marginal transformation returns p(y) = integral of p(y|x) p(x) dx."""
import numpy as np

from .. import build, core, gen
from .. import oracles as orc
from ..gen import J, JI
from . import lincommon as lc

PROP = "C08"
HOSTILE = ('scale', 'mean', 'special')
MONITORS = ("WF", "DENS", "CACHE", "FORM")
ANCHORS = [("conditional.py", "ConditionalGaussianPDF.affine_marginal_transformation"),
           ("conditional.py", "ConditionalIdentityGaussianPDF.affine_marginal_transformation"),
           ("conditional.py", "ConditionalGaussianPDF.get_conditional_mu"),
           ("conditional.py", "ConditionalIdentityGaussianPDF.get_conditional_mu"),
           ("conditional.py", "NNControlGaussianConditional.affine_marginal_transformation")]
RULE = ("cell = (conditional class, (Dx,Dy), batch layout) as in C07; oracle N(M mu + b, Sigma_y + M "
        "Sigma_x M') at 5 points per component; equality with get_marginal of the library's own joint; "
        "for Dx<=2 Gauss-Hermite quadrature over x of the library's cond(x).evaluate(y) * p_x(x) "
        "(both read from the real code); non-trivial: all; distinct = cell tuple")


def cells(tier, seed):
    return lc.cells(tier, "C08")


def run_cell(cell, rec, seed):
    for rep in range(cell["reps"]):
        st = lc.setup(cell, seed, "C08", rep)
        if st is None:
            rec.count("out_of_domain")
            continue
        rng, c, tc, kw, p, tp, tj, info, att = st
        Rc, Rx, Dx, Dy = cell["Rc"], cell["Rx"], cell["Dx"], cell["Dy"]
        rec.cell([cell["ck"], Dx, Dy, Rc, Rx], True)
        m = lc.call(rec, "affine_marginal_transformation",
                    lambda: c.affine_marginal_transformation(p, **kw), info)
        if m is None:
            continue
        y = gen.points(rng, 5, tj.mu_y, tj.Sigma_y)
        got = lc.call(rec, "evaluate_ln", lambda: m.evaluate_ln(J(y)), info)
        if got is not None:
            rec.close("marginal value", got, orc.mvn_logpdf(y, tj.mu_y, tj.Sigma_y),
                      ns=orc.mvn_logpdf_abs(y, tj.mu_y, tj.Sigma_y), detail=info,
                      mech="marginal-transformation-value")
        rec.close("mu_y", m.mu, tj.mu_y, ns=np.max(np.abs(tj.mu_y)) + 1e-12, detail=info,
                  mech="marginal-transformation-mu")
        rec.close("Sigma_y", m.Sigma, tj.Sigma_y, ns=np.max(np.abs(tj.Sigma_y)), detail=info,
                  mech="marginal-transformation-Sigma")
        # y-marginal of the library's own joint
        j = lc.call(rec, "affine_joint_transformation",
                    lambda: c.affine_joint_transformation(p, **kw), info)
        if j is not None:
            jm = lc.call(rec, "get_marginal", lambda: j.get_marginal(JI(np.arange(Dx, Dx + Dy))),
                         info)
            if jm is not None and got is not None:
                rec.close("equals marginal of joint", got, np.asarray(jm.evaluate_ln(J(y))),
                          ns=orc.mvn_logpdf_abs(y, tj.mu_y, tj.Sigma_y), detail=info,
                          mech="marginal-vs-joint-marginal")
        # quadrature over x of the observed p(y|x) p(x)
        if Dx <= 2 and cell["ck"] != "nn" and rep == 0:
            order = 40 if Dx == 1 else 24
            for rx in range(Rx):
                X, W = orc.gh_nodes(tp.mu[rx], tp.Sigma[rx], order)
                q = lc.call(rec, "condition_on_x", lambda: c.condition_on_x(J(X)), info)
                if q is None:
                    break
                # q has components r_c*Nn + n ; evaluate all at y -> [Rc*Nn, 5]
                ev = np.asarray(q.evaluate(J(y))).reshape(Rc, X.shape[0], -1)
                quad = np.einsum("n,rny->ry", W, ev)  # Rc, 5
                X2, W2 = orc.gh_nodes(tp.mu[rx], tp.Sigma[rx], order + 12)
                q2 = c.condition_on_x(J(X2))
                ev2 = np.asarray(q2.evaluate(J(y))).reshape(Rc, X2.shape[0], -1)
                quad2 = np.einsum("n,rny->ry", W2, ev2)
                # the far and the zero evaluation point are outside the reach of a quadrature
                # centred on the prior (p(y|x) is then concentrated far from the nodes and both
                # orders agree on ~0): judge only the points within ~2 sd of the marginal, and
                # only where the value is not negligible against the largest one
                near = slice(0, 3)
                q1, q2 = quad[:, near], quad2[:, near]
                big = np.abs(q2) > 1e-6 * np.max(np.abs(q2))
                if not np.any(big) or np.max(np.abs(q1 - q2)[big] / np.abs(q2)[big]) > 1e-9:
                    rec.count("oracle_unconverged")
                    continue
                if got is not None:
                    idx = [rc * Rx + rx for rc in range(Rc)]
                    g = np.exp(np.asarray(got)[idx])[:, near]
                    rec.close("equals quadrature of p(y|x)p(x)", np.where(big, g, 0.0),
                              np.where(big, q2, 0.0),
                              ns=np.abs(q2) * (1 + np.abs(np.log(np.abs(q2) + 1e-300))) + 1e-280,
                              tol_rel=1e-7, detail=info, mech="marginal-vs-quadrature")
        if rep == 0 and Rc * Rx > 1:
            rec.sample({"case": info, "mu_y": tj.mu_y, "Sigma_y": tj.Sigma_y})
