"""C19 - samples follow the density's law and are reproducible."""
import numpy as np

from .. import build, core, gen
from .. import oracles as orc
from ..gen import J, JI
from . import lincommon as lc

PROP = "C19"
HOSTILE = ('scale', 'mean', 'special')
MONITORS = ("WF", "FORM")
ANCHORS = [("pdf.py", "GaussianPDF.sample")]
RULE = ("cell = (full|diag density, R, D, correlation regime); structural oracle: for the same key "
        "z = jax.random.normal(key, (n,R,D)) is the key's stream; residuals x - mu_r must be an exact "
        "affine image A_r z_{.r} (least-squares fit with zero residual) with A_r A_r' = Sigma_r, paired "
        "with the right component, n draws per component; statistical: mean, covariance and cross-"
        "component correlation within 6 standard errors (n = 2e5 quick / 1e6 thorough) for fixed keys; "
        "determinism: same key -> identical array, different key -> different; non-trivial: R>1 or "
        "D>1; distinct = cell tuple")


def cells(tier, seed):
    out = []
    Rs = (1, 3) if tier == "quick" else (1, 2, 3, 5)
    Ds = (1, 2, 3, 5) if tier == "quick" else (1, 2, 3, 4, 5, 6)
    for diag in (False, True):
        for R in Rs:
            for D in Ds:
                for corr in ("moderate", "strong") + (("extreme",) if D > 1 else ()):
                    out.append({"diag": diag, "R": R, "D": D, "corr": corr, "tier": tier,
                                "group": [R, D], "cost": 1.0})
    # sizes beyond the ordinary: a dimension where a factorisation routine may switch algorithm,
    # and more draws than 2^20 (block-wise generation): structural oracle only
    out.append({"diag": False, "R": 2, "D": 18, "corr": "moderate", "tier": tier, "n": 64,
                "structure_only": True, "group": [2, 18], "cost": 2.0})
    out.append({"diag": False, "R": 1, "D": 1, "corr": "moderate", "tier": tier,
                "n": 2 ** 20 + 4096, "structure_only": True, "group": [1, 1, "many"], "cost": 3.0})
    return out


def run_cell(cell, rec, seed):
    import jax

    diag, R, D, corr, tier = (cell[k] for k in ("diag", "R", "D", "corr", "tier"))
    rng = gen.rng_for(seed, "C19", diag, R, D, corr)
    # correlations up to ~0.9998 (strong) and 1 - 1e-6 (extreme: the property quantifies over
    # arbitrary covariances, strong correlations included)
    kappa = {"moderate": 10.0, "strong": 1e4, "extreme": 1e6}[corr]
    p, t = build.mk_pdf(rng, R, D, kappa=kappa, diag=diag)
    info = {"diag": diag, "R": R, "D": D, "kappa": kappa}
    rec.cell([diag, R, D, corr], R > 1 or D > 1)
    key = jax.random.PRNGKey(int(rng.integers(0, 2 ** 31)))
    key2 = jax.random.PRNGKey(int(rng.integers(0, 2 ** 31)))
    n = int(cell.get("n", 64))
    x = lc.call(rec, "sample", lambda: np.asarray(p.sample(key, n)), info)
    if x is None:
        return
    rec.true("shape [n, R, D]", x.shape == (n, R, D), mech="sample-shape",
             detail=dict(info, shape=list(x.shape)))
    if x.shape != (n, R, D):
        return
    # ---- determinism
    x_again = np.asarray(p.sample(key, n))
    rec.close("same key -> identical draws", x_again, x, exact=True, detail=info,
              mech="sample-nondeterministic")
    x_other = np.asarray(p.sample(key2, n))
    rec.true("different key -> different draws", not np.array_equal(x_other, x),
             mech="sample-ignores-key", detail=info)
    # ---- every form of key jax hands out: a new-style typed key of the same seed (and keys
    # derived by split) index the same stream as the legacy uint32 key
    seed_k = int(rng.integers(0, 2 ** 31))
    xk_old = lc.call(rec, "sample", lambda: np.asarray(p.sample(jax.random.PRNGKey(seed_k), 8)),
                     info)
    xk_new = lc.call(rec, "sample[typed key]",
                     lambda: np.asarray(p.sample(jax.random.key(seed_k), 8)), info)
    if xk_old is not None and xk_new is not None:
        rec.close("typed key = legacy key of the same seed", xk_new, xk_old, exact=True,
                  detail=info, mech="sample-typed-key-differs")
    sub_new = jax.random.split(jax.random.key(seed_k), 2)[1]
    sub_old = jax.random.split(jax.random.PRNGKey(seed_k), 2)[1]
    xs_new = lc.call(rec, "sample[split typed key]", lambda: np.asarray(p.sample(sub_new, 8)), info)
    if xs_new is not None:
        rec.close("split typed key = split legacy key", xs_new, np.asarray(p.sample(sub_old, 8)),
                  exact=True, detail=info, mech="sample-typed-key-differs")
    # ---- structure: affine image of the key's normal stream
    z = np.asarray(jax.random.normal(key, (n, R, D)))
    for r in range(R):
        res = x[:, r, :] - t.mu[r][None]  # n D
        # least squares res = z_r A'  -> A [D,D]
        At, resid, rank, sv = np.linalg.lstsq(z[:, r, :], res, rcond=None)
        fit = z[:, r, :] @ At
        sd = np.sqrt(np.max(np.diag(t.Sigma[r])))
        rec.close("draws are an affine image of the key's stream", fit, res, ns=sd * 10.0,
                  detail=dict(info, component=r), mech="sample-not-affine-in-stream")
        A = At.T
        rec.close("A A' = Sigma", A @ A.T, t.Sigma[r], ns=np.max(np.abs(t.Sigma[r])),
                  tol_rel=1e-8 * 10, detail=dict(info, component=r),
                  mech="sample-wrong-covariance-factor")
        # whitened: A' Sigma^-1 A = I judges every direction on its own scale (an entry-wise
        # comparison is blind to the weakest direction of a strongly correlated covariance)
        Wd = A.T @ np.linalg.solve(t.Sigma[r], A)
        rec.close("A' Sigma^-1 A = I", Wd, np.eye(D), ns=max(1.0, kappa / 1e4) * 10.0,
                  detail=dict(info, component=r), mech="sample-wrong-covariance-factor-whitened")
        # pairing: the stream of another component must not explain component r
        if R > 1:
            o = (r + 1) % R
            At2 = np.linalg.lstsq(z[:, o, :], res, rcond=None)[0]
            rel = np.linalg.norm(z[:, o, :] @ At2 - res) / (np.linalg.norm(res) + 1e-300)
            rec.true("component uses its own stream", rel > 0.3, mech="sample-wrong-pairing",
                     detail=dict(info, component=r, other=o, rel_residual=float(rel)))
    if cell.get("structure_only"):
        return
    # ---- statistics for a fixed key
    N = 200000 if tier == "quick" else 1000000
    xs = lc.call(rec, "sample(big)", lambda: np.asarray(p.sample(key2, N)), info)
    if xs is None:
        return
    for r in range(R):
        m = xs[:, r, :].mean(0)
        se = np.sqrt(np.diag(t.Sigma[r]) / N)
        rec.leq("mean within 6 standard errors", np.abs(m - t.mu[r]), 6 * se, detail=dict(
            info, component=r), mech="sample-mean-off")
        C = np.cov(xs[:, r, :].T).reshape(D, D)
        # standard error of a sample covariance entry: sqrt((S_ii S_jj + S_ij^2)/N)
        d = np.diag(t.Sigma[r])
        seC = np.sqrt((d[:, None] * d[None, :] + t.Sigma[r] ** 2) / N)
        rec.leq("covariance within 6 standard errors", np.abs(C - t.Sigma[r]), 6 * seC,
                detail=dict(info, component=r), mech="sample-covariance-off")
    if R > 1:
        a = (xs[:, 0, :] - t.mu[0]) / np.sqrt(np.diag(t.Sigma[0]))
        b = (xs[:, 1, :] - t.mu[1]) / np.sqrt(np.diag(t.Sigma[1]))
        cc = (a[:, :, None] * b[:, None, :]).mean(0)
        rec.leq("components mutually independent (cross-correlation)", np.abs(cc),
                6.0 / np.sqrt(N), detail=info, mech="sample-components-correlated")
    # ---- histories: the law must follow the object's current state after it was sliced or
    # updated in place, also when samples were drawn before the update
    L = build.lib()
    hist = []
    idx = rng.integers(0, R, size=R + 1)
    hist.append(("slice", p.slice(JI(idx)), t.mu[idx], t.Sigma[idx]))
    cls = L.pdf.GaussianDiagPDF if diag else L.pdf.GaussianPDF
    pu = cls(Sigma=J(t.Sigma), mu=J(t.mu))
    pu.sample(key, 4)  # a draw before the update (anything cached now must not survive it)
    i0 = int(rng.integers(0, R))
    d, td = build.mk_pdf(rng, 1, D, kappa=10.0, scale=3.0, diag=diag)
    pu.update(JI([i0]), d)
    mu_u, S_u = t.mu.copy(), t.Sigma.copy()
    mu_u[i0], S_u[i0] = td.mu[0], td.Sigma[0]
    hist.append(("sample-update-sample", pu, mu_u, S_u))
    for name, obj, mu_h, S_h in hist:
        rec.cell([diag, R, D, corr, name], R > 1 or D > 1)
        Rh = mu_h.shape[0]
        xh = lc.call(rec, f"sample[{name}]", lambda: np.asarray(obj.sample(key, n)), info)
        if xh is None or xh.shape != (n, Rh, D):
            rec.true(f"shape after {name}", False, mech=f"sample-shape:{name}", detail=info)
            continue
        zh = np.asarray(jax.random.normal(key, (n, Rh, D)))
        for r in range(Rh):
            res = xh[:, r, :] - mu_h[r][None]
            At = np.linalg.lstsq(zh[:, r, :], res, rcond=None)[0]
            sd = np.sqrt(np.max(np.diag(S_h[r])))
            rec.close(f"{name}: affine image of the stream", zh[:, r, :] @ At, res, ns=sd * 10.0,
                      detail=dict(info, history=name, component=r),
                      mech=f"sample-not-affine-in-stream:{name}")
            rec.close(f"{name}: A A' = Sigma", At.T @ At, S_h[r], ns=np.max(np.abs(S_h[r])),
                      tol_rel=1e-7, detail=dict(info, history=name, component=r),
                      mech=f"sample-wrong-covariance-factor:{name}")
    rec.sample({"case": info, "first_draws": x[:2]})
