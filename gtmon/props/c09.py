"""C09 - conditional transformation is Bayes' rule and is invertible."""
import numpy as np

from .. import build, core, gen
from .. import oracles as orc
from ..gen import J, JI
from . import lincommon as lc

PROP = "C09"
HOSTILE = ('scale', 'mean', 'special')
MONITORS = ("WF", "DENS", "CACHE", "FORM")
ANCHORS = [("conditional.py", "ConditionalGaussianPDF.affine_conditional_transformation"),
           ("conditional.py", "ConditionalIdentityGaussianPDF.affine_conditional_transformation"),
           ("conditional.py", "NNControlGaussianConditional.affine_conditional_transformation")]
RULE = ("cell = (conditional class, (Dx,Dy), batch layout) as in C07; checks: pointwise Bayes identity "
        "post(y)(x) + ln p(y) = ln p(y|x) + ln p(x) with the right-hand side from NumPy; posterior "
        "parameters against the closed-form gain; recorded round trips, component by component via "
        "slice: post.affine_conditional_transformation(p_y) ~ cond and post.affine_marginal_"
        "transformation(p_y) ~ p_x as functions and parameters; domain guard on the joint covariance; "
        "non-trivial: all; distinct = cell tuple")


def cells(tier, seed):
    return lc.cells(tier, "C09")


def run_cell(cell, rec, seed):
    for rep in range(cell["reps"]):
        st = lc.setup(cell, seed, "C09", rep)
        if st is None:
            rec.count("out_of_domain")
            continue
        rng, c, tc, kw, p, tp, tj, info, att = st
        Rc, Rx, Dx, Dy = cell["Rc"], cell["Rx"], cell["Dx"], cell["Dy"]
        R = Rc * Rx
        rec.cell([cell["ck"], Dx, Dy, Rc, Rx], True)
        post = lc.call(rec, "affine_conditional_transformation",
                       lambda: c.affine_conditional_transformation(p, **kw), info)
        if post is None:
            continue
        # closed-form posterior: gain K = C' Sy^-1 ; x|y ~ N(mu_x + K(y - mu_y), Sx - K C)
        K = np.einsum("rba,rbc->rac", tj.C, orc.inv(tj.Sigma_y))  # R Dx Dy
        b_post = tj.mu_x - np.einsum("rab,rb->ra", K, tj.mu_y)
        S_post = tj.Sigma_x - np.einsum("rab,rbc->rac", K, tj.C)
        S_post = 0.5 * (S_post + np.swapaxes(S_post, 1, 2))
        if not gen.in_domain(S_post):
            rec.count("out_of_domain")
            continue
        rec.close("posterior gain M", post.M, K, ns=np.max(np.abs(K), axis=(1, 2), keepdims=True)
                  + 1e-12, detail=info, mech="posterior-M")
        rec.close("posterior offset b", post.b, b_post,
                  ns=np.max(np.abs(tj.mu_x)) + np.max(np.abs(K)) * np.max(np.abs(tj.mu_y)) + 1e-12,
                  detail=info, mech="posterior-b")
        rec.close("posterior Sigma", post.Sigma, S_post, ns=np.max(np.abs(tj.Sigma_x)),
                  detail=info, mech="posterior-Sigma")
        # pointwise Bayes identity at N points
        N = 4
        z = gen.points(rng, N, tj.mu_xy, tj.Sigma_xy)
        x, y = z[:, :Dx], z[:, Dx:]
        q = lc.call(rec, "condition_on_x", lambda: post.condition_on_x(J(y)), info)
        if q is not None:
            # component r*N + n evaluated at x_n
            lpost = np.asarray(q.evaluate_ln(J(np.tile(x, (R, 1))), element_wise=True)).reshape(R, N)
            lpy = orc.mvn_logpdf(y, tj.mu_y, tj.Sigma_y)
            lyx = np.stack([orc.mvn_logpdf_elem(y, x @ tj.M[r].T + tj.b[r], np.tile(
                tj.Sigma_c[r][None], (N, 1, 1))) for r in range(R)])
            lpx = orc.mvn_logpdf(x, tj.mu_x, tj.Sigma_x)
            ns = (orc.mvn_logpdf_abs(y, tj.mu_y, tj.Sigma_y) + np.abs(lyx) + Dy
                  + orc.mvn_logpdf_abs(x, tj.mu_x, tj.Sigma_x))
            rec.close("Bayes identity", lpost + lpy, lyx + lpx, ns=ns, detail=info,
                      mech="bayes-identity")
            # the same with the library's own p(y)
            py = lc.call(rec, "affine_marginal_transformation",
                         lambda: c.affine_marginal_transformation(p, **kw), info)
            if py is not None:
                rec.close("Bayes identity (library p(y))", lpost + np.asarray(py.evaluate_ln(J(y))),
                          lyx + lpx, ns=ns, detail=info, mech="bayes-identity-internal")
        # round trips, component by component
        py = lc.call(rec, "affine_marginal_transformation",
                     lambda: c.affine_marginal_transformation(p, **kw), info)
        if py is None:
            continue
        for r in range(R):
            inf = dict(info, component=r)
            post_r = lc.call(rec, "slice", lambda: post.slice(JI([r])), inf)
            py_r = lc.call(rec, "slice", lambda: py.slice(JI([r])), inf)
            if post_r is None or py_r is None:
                continue
            back = lc.call(rec, "round-trip conditional",
                           lambda: post_r.affine_conditional_transformation(py_r), inf)
            amp = gen.cond(tj.Sigma_xy[r])  # round trips amplify by the joint's condition number
            tolr = 1e-8 * max(1.0, amp / 100.0) if False else 1e-8
            if back is not None:
                rec.close("round trip: M", back.M, tj.M[r:r + 1], ns=np.max(np.abs(tj.M[r])) + 1e-3,
                          tol_rel=tolr, detail=inf, mech="roundtrip-cond-M")
                rec.close("round trip: b", back.b, tj.b[r:r + 1],
                          ns=np.max(np.abs(tj.b[r])) + np.max(np.abs(tj.M[r])) * np.max(
                              np.abs(tj.mu_x[r])) + 1e-3, tol_rel=tolr, detail=inf,
                          mech="roundtrip-cond-b")
                rec.close("round trip: Sigma", back.Sigma, tj.Sigma_c[r:r + 1],
                          ns=np.max(np.abs(tj.Sigma_y[r])), tol_rel=tolr, detail=inf,
                          mech="roundtrip-cond-Sigma")
                xs = gen.points(rng, 3, tj.mu_x[r:r + 1], tj.Sigma_x[r:r + 1])
                ys = gen.points(rng, 3, tj.mu_y[r:r + 1], tj.Sigma_y[r:r + 1])
                qb = lc.call(rec, "condition_on_x", lambda: back.condition_on_x(J(xs)), inf)
                if qb is not None:
                    lv = np.asarray(qb.evaluate_ln(J(ys), element_wise=True))
                    ref = orc.mvn_logpdf_elem(ys, xs @ tj.M[r].T + tj.b[r],
                                              np.tile(tj.Sigma_c[r][None], (3, 1, 1)))
                    rec.close("round trip: conditional as function", lv, ref,
                              ns=1.0 + np.abs(ref) + Dy + orc.mvn_logpdf_abs(
                                  ys, tj.mu_y[r:r + 1], tj.Sigma_y[r:r + 1])[0], detail=inf,
                              mech="roundtrip-cond-function")
            px = lc.call(rec, "round-trip marginal",
                         lambda: post_r.affine_marginal_transformation(py_r), inf)
            if px is not None:
                rec.close("round trip: mu_x", px.mu, tj.mu_x[r:r + 1],
                          ns=np.max(np.abs(tj.mu_x[r])) + np.max(np.abs(K[r])) * np.max(
                              np.abs(tj.mu_y[r])) + 1e-3, detail=inf, mech="roundtrip-marginal-mu")
                rec.close("round trip: Sigma_x", px.Sigma, tj.Sigma_x[r:r + 1],
                          ns=np.max(np.abs(tj.Sigma_x[r])), detail=inf,
                          mech="roundtrip-marginal-Sigma")
        if rep == 0 and R > 1:
            rec.sample({"case": info, "gain": K, "posterior_Sigma": S_post})
