"""C03 - polynomial integrals equal the exact Gaussian moments."""
import numpy as np

from .. import build, core, gen
from .. import oracles as orc
from ..gen import J

PROP = "C03"
HOSTILE = ('scale', 'special')
MONITORS = ("WF", "FORM")
ANCHORS = [("measure.py", "GaussianMeasure.integrate"), ("measure.py", "GaussianMeasure._get_default"),
           ("measure.py", "GaussianMeasure.integrate_cubic_outer"),
           ("measure.py", "GaussianMeasure.integrate_xbxx")] + [
    ("measure.py", "GaussianMeasure." + n) for n in (
        "_expectation_x", "_expectation_general_linear", "_expectation_xxT",
        "_expectation_general_quadratic_inner", "_expectation_general_quadratic_outer",
        "_expectation_xbxx", "_expectation_cubic_outer", "_expectation_general_cubic_inner",
        "_expectation_general_cubic_outer", "_expectation_general_quartic_outer",
        "_expectation_general_quartic_inner")]
RULE = ("cell = (integrand key, D, (K,L,M) pairwise different, R, coefficient layout in {shared, "
        "per-component, mixed, matrix omitted, vector omitted, both omitted}, mode in {exact, float}, "
        "call style in {integrate(expr), named method}); oracle = total mass x Isserlis moment of "
        "scalar affine forms (exact integer arithmetic in exact mode, where equality must be "
        "bit-exact); non-trivial: D>1 or R>1; distinct = cell tuple")

GENERAL = {
    "(Ax+a)": ("A",),
    "(Ax+a)'(Bx+b)": ("A", "B"),
    "(Ax+a)(Bx+b)'": ("A", "B"),
    "(Ax+a)(Bx+b)'(Cx+c)": ("A", "B", "C"),
    "(Ax+a)'(Bx+b)(Cx+c)'": ("A", "B", "C"),
    "(Ax+a)'(Bx+b)(Cx+c)'(Dx+d)": ("A", "B", "C", "D"),
    "(Ax+a)(Bx+b)'(Cx+c)(Dx+d)'": ("A", "B", "C", "D"),
}
NAMED = {
    "1": "integral", "x": "integrate_x", "(Ax+a)": "integrate_general_linear",
    "xx'": "integrate_xxT", "(Ax+a)'(Bx+b)": "integrate_general_quadratic_inner",
    "(Ax+a)(Bx+b)'": "integrate_general_quadratic_outer",
    "(Ax+a)(Bx+b)'(Cx+c)": "integrate_general_cubic_inner",
    "(Ax+a)'(Bx+b)(Cx+c)'": "integrate_general_cubic_outer",
    "x(A'x + a)x'": "integrate_cubic_outer", "xb'xx'": "integrate_xbxx",
    "(Ax+a)'(Bx+b)(Cx+c)'(Dx+d)": "integrate_general_quartic_inner",
    "(Ax+a)(Bx+b)'(Cx+c)(Dx+d)'": "integrate_general_quartic_outer",
}
ALL_KEYS = list(NAMED)
LAYOUTS = ("shared", "percomp", "mixed", "nomat", "novec", "none", "samemat", "nomatper",
           "samematper")


def rows(key, K, L, M):
    """row count of each form so that the expression is well typed."""
    return {
        "(Ax+a)": (K,),
        "(Ax+a)'(Bx+b)": (K, K),
        "(Ax+a)(Bx+b)'": (K, L),
        "(Ax+a)(Bx+b)'(Cx+c)": (K, L, L),
        "(Ax+a)'(Bx+b)(Cx+c)'": (K, K, L),
        "(Ax+a)'(Bx+b)(Cx+c)'(Dx+d)": (K, K, L, L),
        "(Ax+a)(Bx+b)'(Cx+c)(Dx+d)'": (K, L, L, M),
    }[key]


def cells(tier, seed):
    out = []
    rng = gen.rng_for(seed, "C03cells", tier)
    if tier == "quick":
        Ds, Rs, klms = (1, 2, 3, 4), (1, 3), [(2, 3, 1), (1, 2, 3)]
    else:
        Ds, Rs, klms = (1, 2, 3, 4, 5, 6), (1, 2, 4), [(2, 3, 1), (1, 2, 3), (3, 1, 2), (4, 5, 2),
                                                        (5, 3, 4), (2, 4, 5)]
    for key in ALL_KEYS:
        for D in Ds:
            for R in Rs:
                if key in GENERAL:
                    for li, lay in enumerate(LAYOUTS):
                        # K,L,M: a mandatory first choice, more in the thorough tier
                        ks = klms if tier != "quick" else [klms[(li + D) % len(klms)]]
                        for (K, L, M) in ks:
                            for mode in ("exact", "float"):
                                out.append({"key": key, "D": D, "R": R, "K": K, "L": L, "M": M,
                                            "layout": lay, "mode": mode,
                                            "group": [key, D, R, K, L, M, lay],
                                            "cost": 1.0 + 0.2 * len(GENERAL[key])})
                else:
                    for lay in ("shared", "percomp"):
                        for mode in ("exact", "float"):
                            out.append({"key": key, "D": D, "R": R, "K": 0, "L": 0, "M": 0,
                                        "layout": lay, "mode": mode, "group": [key, D, R, lay],
                                        "cost": 1.0})
    return out


def int_spd(rng, R, D):
    G = rng.integers(-2, 3, size=(R, D, D))
    return np.einsum("rab,rcb->rac", G, G) + np.eye(D, dtype=int)[None] * int(rng.integers(1, 3))


def _oracle(key, mu, Sigma, mats, vecs, dtype):
    """per-component moment; returns (value, abs companion value)."""
    D = len(mu)
    if key == "1":
        return (1 if dtype is object else 1.0), 1.0
    if key in ("x", "xx'", "x(A'x + a)x'", "xb'xx'"):
        eye = np.eye(D, dtype=int)
        zero = np.zeros(D, dtype=int)
        if key == "x":
            F = orc.Forms(mu, Sigma, [eye], [zero], dtype)
            fn = lambda F: np.array([F.E([(0, i)]) for i in range(D)], dtype=dtype)
        elif key == "xx'":
            F = orc.Forms(mu, Sigma, [eye], [zero], dtype)
            fn = lambda F: np.array([[F.E([(0, i), (0, j)]) for j in range(D)] for i in range(D)],
                                    dtype=dtype)
        else:
            # x (w'x + c) x'  with w = mats[0] (row), c = vecs[0]
            F = orc.Forms(mu, Sigma, [eye, np.asarray(mats[0]).reshape(1, D)],
                          [zero, np.asarray(vecs[0]).reshape(1)], dtype)
            fn = lambda F: np.array([[F.E([(0, i), (1, 0), (0, j)]) for j in range(D)]
                                     for i in range(D)], dtype=dtype)
        return fn(F), np.asarray(fn(F.abs_companion()), dtype=float)
    F = orc.Forms(mu, Sigma, mats, vecs, dtype)
    return orc.poly_moment(key, F), np.asarray(orc.poly_moment(key, F.abs_companion()),
                                               dtype=float)


def run_cell(cell, rec, seed):
    key, D, R, K, L, M = (cell[k] for k in ("key", "D", "R", "K", "L", "M"))
    lay, mode = cell["layout"], cell["mode"]
    exact = mode == "exact"
    nrep = 2
    for rep in range(nrep):
        rng = gen.rng_for(seed, "C03", key, D, R, K, L, M, lay, mode, rep)
        L_ = build.lib()
        # ----- measure
        if exact:
            Sig = int_spd(rng, R, D)
            mu = rng.integers(-3, 4, size=(R, D))
            p = L_.pdf.GaussianPDF(Sigma=J(Sig), mu=J(mu))
            mass = np.ones(R)
            ln_mass_abs = np.zeros(R)
            via_update = rep == 1
        else:
            kappa = float(rng.choice(gen.KAPPAS))
            p, t = build.mk_measure("measure" if rep == 0 else "diag_measure", rng, R, D,
                                    kappa=kappa)
            mu, Sig = t.mu, t.Sigma
            lm = orc.gauss_lnZ(t.Lambda, t.nu) + t.ln_beta
            mass = np.exp(lm)
            ln_mass_abs = np.abs(lm)
        # ----- coefficients
        kw, truth_m, truth_v = {}, [], []

        def draw(shape):
            if exact:
                return rng.integers(-3, 4, size=shape)
            return rng.standard_normal(shape) * rng.uniform(0.3, 2.0)

        if key in GENERAL:
            nrows = rows(key, K, L, M)
            for fi, (nm, n) in enumerate(zip(GENERAL[key], nrows)):
                per = {"shared": False, "percomp": True, "mixed": fi % 2 == 0,
                       "nomatper": True, "samematper": True}.get(lay, False)  # nomatper: identity matrix, offset
                has_mat = lay not in ("nomat", "none", "nomatper")  # vector given per component
                has_vec = lay not in ("novec", "none")
                if not has_mat:
                    n = D  # omitted matrix means identity: the form has D rows
                mat = draw((R, n, D) if per else (n, D)) if has_mat else None
                # "mixed": matrix per component, vector shared (and vice versa for odd forms)
                vper = per if lay != "mixed" else not per
                vec = draw((R, n) if vper else (n,)) if has_vec else None
                if mat is not None:
                    kw[f"{nm}_mat"] = J(mat)
                if vec is not None:
                    kw[f"{nm.lower()}_vec"] = J(vec)
                tm = np.eye(D, dtype=int) if mat is None else mat
                tv = np.zeros(n, dtype=int) if vec is None else vec
                truth_m.append(tm)
                truth_v.append(tv)
            if lay in ("samemat", "samematper"):
                # the very same array object passed for two matrices (A and B, C and D) with
                # different offset vectors: a legitimate call (e.g. (Ax+a)'(Ax+b))
                names = GENERAL[key]
                for i0, i1 in ((0, 1), (2, 3)):
                    if i1 < len(names) and np.shape(truth_m[i0]) == np.shape(truth_m[i1]):
                        kw[f"{names[i1]}_mat"] = kw[f"{names[i0]}_mat"]
                        truth_m[i1] = truth_m[i0]
            # omitted matrices force equal row counts only where the expression needs them;
            # identity forms all have D rows, so the typing is consistent.
        elif key == "x(A'x + a)x'":
            per = lay == "percomp"
            mat = draw((R, 1, D) if per else (1, D))
            vec = draw((R, 1) if per else (1,))
            kw = {"A_mat": J(mat), "a_vec": J(vec)}
            truth_m, truth_v = [mat], [vec]
        elif key == "xb'xx'":
            per = lay == "percomp"
            vec = draw((R, D) if per else (D,))
            kw = {"b_vec": J(vec)}
            truth_m, truth_v = [vec], [np.zeros((R, 1), dtype=int) if per else np.zeros(1, dtype=int)]
        if exact and via_update:
            # history: another density on which the same integral was already taken, then
            # overwritten in place with update(); must be indistinguishable from a fresh one
            def warm(o):
                o.integrate(key, **kw)
                getattr(o, NAMED[key])(**kw)
            p = build.pdf_via_update(rng, build.Truth(mu=np.asarray(mu, dtype=float),
                                                      Sigma=np.asarray(Sig, dtype=float)),
                                     False, warm=warm)
        info = {"key": key, "D": D, "R": R, "K": K, "L": L, "M": M, "layout": lay, "mode": mode,
                "via_update": bool(exact and via_update)}
        # ----- oracle per component
        refs, scales = [], []
        big = False
        for r in range(R):
            mats_r = [m[r] if np.ndim(m) == 3 else m for m in truth_m]
            if key == "xb'xx'":
                mats_r = [truth_m[0][r] if np.ndim(truth_m[0]) == 2 else truth_m[0]]
                vecs_r = [np.zeros(1, dtype=int)]
            elif key == "x(A'x + a)x'":
                vecs_r = [truth_v[0][r] if np.ndim(truth_v[0]) == 2 else truth_v[0]]
            else:
                vecs_r = [v[r] if np.ndim(v) == 2 else v for v in truth_v]
            val, comp = _oracle(key, mu[r], Sig[r], mats_r, vecs_r, object if exact else float)
            if exact and np.max(np.abs(np.asarray(comp, dtype=float))) >= 2.0 ** 50:
                big = True
            refs.append(np.asarray(val, dtype=float) * mass[r])
            scales.append(np.asarray(comp, dtype=float) * mass[r] * (1.0 + ln_mass_abs[r]))
        if big:
            rec.count("exact_mode_too_large")
            continue
        ref = np.stack([np.asarray(v) for v in refs])
        ns = np.stack([np.asarray(v) for v in scales]) + 1e-300
        rec.cell([key, D, R, K, L, M, lay, mode], D > 1 or R > 1)
        for style in ("integrate", "named"):
            try:
                if style == "integrate":
                    got = p.integrate(key, **kw)
                else:
                    got = getattr(p, NAMED[key])(**kw)
            except Exception as e:
                rec.evaluations += 1
                rec.fail(f"raises:{key}:{lay}:{type(e).__name__}@{core.exc_site(e)}",
                         dict(info, style=style, exc=core.exc_info(e)))
                continue
            g = np.asarray(got, dtype=float)
            if g.shape != ref.shape and g.size == ref.size:
                g = g.reshape(ref.shape)
            rec.close(f"{key}", g, ref, ns=ns, exact=exact, detail=dict(info, style=style),
                      mech=f"moment:{key}:{lay}:{mode}")
        if not exact and hasattr(p, "normalize"):
            # history: the measure that was just integrated is normalised *in place* (public
            # normalize(): ln_beta := -lnZ) and integrated again. The same object now has mass
            # one, so every polynomial integral is the plain Gaussian moment - nothing remembered
            # from the queries made while the mass was different may survive
            try:
                p.normalize()
                again = [("integrate", p.integrate(key, **kw)),
                         ("named", getattr(p, NAMED[key])(**kw))]
            except Exception as e:
                rec.evaluations += 1
                rec.fail(f"raises:after-normalize:{key}:{type(e).__name__}@{core.exc_site(e)}",
                         dict(info, exc=core.exc_info(e)))
                again = []
            msh = mass.reshape((R,) + (1,) * (ref.ndim - 1))
            for style, got in again:
                g = np.asarray(got, dtype=float)
                if g.shape != ref.shape and g.size == ref.size:
                    g = g.reshape(ref.shape)
                rec.count("integrals_after_inplace_normalize")
                rec.close(f"{key} after in-place normalize()", g, ref / msh, ns=ns / msh,
                          detail=dict(info, style=style, history="integrate, normalize(), integrate"),
                          mech=f"moment-after-normalize:{key}:{lay}")
        if rep == 0 and R == 1 and D == 2 and mode == "exact" and lay == "shared":
            rec.sample({"case": info, "mu": mu, "Sigma": Sig,
                        "coefficients": {k: np.asarray(v) for k, v in kw.items()}, "oracle": ref})
