"""shared cell catalogue and helpers for C07, C08, C09 (linear-Gaussian transformations)."""
import numpy as np

from .. import build, core, gen

DIMS_Q = [(1, 1), (2, 1), (1, 2), (2, 2), (3, 2), (2, 3), (4, 2), (3, 5), (4, 4)]   # (Dx, Dy): Dx>Dy, Dx=Dy, Dx<Dy
DIMS_T = DIMS_Q + [(3, 1), (1, 3), (3, 3), (2, 4), (5, 3), (6, 2), (2, 6), (5, 5)]
LAYOUTS = [(1, 1), (1, 3), (3, 1), (1, 5), (4, 1)]   # (R_cond, R_x)
LAYOUTS_T = LAYOUTS + [(1, 6), (6, 1), (2, 1), (1, 2)]


def cells(tier, tag):
    out = []
    dims = DIMS_Q if tier == "quick" else DIMS_T
    lays = LAYOUTS if tier == "quick" else LAYOUTS_T
    reps = 2 if tier == "quick" else 10
    for ck in build.COND_KINDS:
        for (Dx, Dy) in dims:
            if ck.startswith("identity") and Dx != Dy:
                continue
            for (Rc, Rx) in lays:
                out.append({"ck": ck, "Dx": Dx, "Dy": Dy, "Rc": Rc, "Rx": Rx, "reps": reps,
                            "group": [tag, Dx, Dy, Rc, Rx], "cost": 1.0})
    return out


def call(rec, what, fn, info):
    try:
        return fn()
    except Exception as e:
        rec.evaluations += 1
        rec.fail(f"raises:{what}:{type(e).__name__}@{core.exc_site(e)}",
                 dict(info, exc=core.exc_info(e)))
        return None


def setup(cell, seed, tag, rep, zero_M=False, wide=False):
    ck, Dx, Dy, Rc, Rx = (cell[k] for k in ("ck", "Dx", "Dy", "Rc", "Rx"))
    rng = gen.rng_for(seed, tag, ck, Dx, Dy, Rc, Rx, rep)
    for attempt in range(20):
        kc = float(rng.choice(gen.KAPPAS[:4]))
        kx = float(rng.choice(gen.KAPPAS[:4]))
        c, tc, kw = build.mk_conditional(ck, rng, Rc, Dy, Dx, kappa=kc, zero_M=zero_M)
        # the prior's class is part of the operand space: a diagonal density (its own constructor
        # and inversion) in about a third of the cases
        pdiag = bool(rng.random() < 0.35)
        p, tp = build.mk_pdf(rng, Rx, Dx, kappa=kx, diag=pdiag)
        tj = build.joint_truth(tc, tp)
        info_wide = not gen.in_domain(tj.Sigma_xy)
        if gen.in_domain(tj.Sigma_y) and (not info_wide or (wide and gen.cond(tj.Sigma_xy) < 1e7)):
            info = {"ck": ck, "Dx": Dx, "Dy": Dy, "Rc": Rc, "Rx": Rx, "kappa_c": kc,
                    "kappa_x": kx, "rep": rep, "joint_ill_conditioned": bool(info_wide),
                    "prior_class": "GaussianDiagPDF" if pdiag else "GaussianPDF"}
            return rng, c, tc, kw, p, tp, tj, info, attempt
    return None
