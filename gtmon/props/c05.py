"""C05 - marginals and linear images have the law of the sub-vector / of Wx+b."""
import itertools

import numpy as np

from .. import build, core, gen
from .. import oracles as orc
from ..gen import J, JI

PROP = "C05"
HOSTILE = ('scale', 'mean', 'special')
MONITORS = ("WF", "DENS", "CACHE", "FORM")
ANCHORS = [("pdf.py", "GaussianPDF.get_marginal"), ("pdf.py", "GaussianDiagPDF.get_marginal"),
           ("pdf.py", "GaussianPDF.get_density_of_linear_sum")]
RULE = ("cell = (full|diag density, R, D, index list (all non-empty duplicate-free lists in random "
        "order, exhaustive subsets for D<=3) | linear image with Dsum rows, b given / omitted); "
        "oracle N(mu[dims], Sigma[dims,dims]) resp. N(W mu + b, W Sigma W') by NumPy, plus Gauss-"
        "Hermite integration of the library's joint evaluate over the dropped coordinates (<=2 "
        "dropped); non-trivial: D>1; distinct = cell tuple incl. the index list")


def cells(tier, seed):
    out = []
    Ds = (1, 2, 3, 4, 5) if tier == "quick" else (1, 2, 3, 4, 5, 6)
    Rs = (1, 3) if tier == "quick" else (1, 2, 4)
    for diag in (False, True):
        for R in Rs:
            for D in Ds:
                out.append({"part": "marginal", "diag": diag, "R": R, "D": D, "tier": tier,
                            "group": ["m", R, D], "cost": D})
                out.append({"part": "linsum", "diag": diag, "R": R, "D": D,
                            "group": ["l", R, D], "cost": D})
        if tier == "quick":
            # one larger dimension: almost all coordinates kept (where a Schur-complement route
            # from the joint precision would pay off) and few kept
            out.append({"part": "marginal", "diag": diag, "R": 2, "D": 7, "tier": "quick-large",
                        "group": ["m", 2, 7], "cost": 4})
    return out


def _call(rec, what, fn, info):
    try:
        return fn()
    except Exception as e:
        rec.evaluations += 1
        rec.fail(f"raises:{what}:{type(e).__name__}@{core.exc_site(e)}",
                 dict(info, exc=core.exc_info(e)))
        return None


def index_lists(rng, D, tier):
    if tier == "quick-large":
        lists = []
        for k in (D - 1, D - 1, D - 2, 2, 1):
            lists.append(list(rng.permutation(D)[:k]))
        return lists
    lists = []
    for k in range(1, D + 1):
        combos = list(itertools.combinations(range(D), k))
        if D > 3 and tier == "quick":
            combos = [combos[i] for i in rng.permutation(len(combos))[:6]]
        for c in combos:
            lists.append(list(rng.permutation(c)))
            if k >= 3:  # orders of three or more coordinates: a second, different order
                lists.append(list(rng.permutation(c)))
    return lists


def run_cell(cell, rec, seed):
    diag, R, D = cell["diag"], cell["R"], cell["D"]
    tier = cell.get("tier", "quick")
    rng = gen.rng_for(seed, "C05", cell["part"], diag, R, D)
    kappa = float(rng.choice(gen.KAPPAS))
    p, t = build.mk_pdf(rng, R, D, kappa=kappa, diag=diag)
    info = {"part": cell["part"], "diag": diag, "R": R, "D": D, "kappa": kappa}
    if cell["part"] == "marginal":
        for dims in index_lists(rng, D, tier):
            dims = np.asarray(dims)
            inf = dict(info, dims=dims.tolist())
            if rng.random() < 0.3:
                # history: the same marginal was taken from this object while it still was
                # another density; then it was overwritten in place with update()
                ph = _call(rec, "pdf_via_update", lambda: build.pdf_via_update(
                    rng, t, diag, warm=lambda o: o.get_marginal(JI(dims))), inf)
                inf = dict(inf, via_update=True)
            else:
                ph = p
            if ph is None:
                continue
            if rng.random() < 0.25:
                # a caller that keeps its index list in a NumPy buffer and reuses the buffer
                # afterwards: the judged call below must not see what became of that buffer
                buf = np.array(dims, dtype=np.int64)
                try:
                    ph.get_marginal(buf)
                    buf[:] = (buf + 1) % D if len(buf) == 1 else np.roll(buf, 1)
                    inf = dict(inf, index_buffer_reused=True)
                except Exception:
                    rec.count("numpy_index_unsupported")
            m = _call(rec, "get_marginal", lambda: ph.get_marginal(JI(dims)), inf)
            rec.cell(["marginal", diag, R, D, dims.tolist()], D > 1)
            if m is None:
                continue
            mu_m, S_m = t.mu[:, dims], t.Sigma[:, dims][:, :, dims]
            x = gen.points(rng, 5, mu_m, S_m)
            got = _call(rec, "evaluate_ln", lambda: m.evaluate_ln(J(x)), inf)
            if got is not None:
                rec.close("marginal value", got, orc.mvn_logpdf(x, mu_m, S_m),
                          ns=orc.mvn_logpdf_abs(x, mu_m, S_m), detail=inf, mech="marginal-value")
            rec.close("marginal mu", m.mu, mu_m, ns=1e-300 + np.max(np.abs(mu_m)) + 1e-12,
                      detail=inf, mech="marginal-mu")
            rec.close("marginal Sigma", m.Sigma, S_m, ns=np.max(np.abs(S_m)), detail=inf,
                      mech="marginal-Sigma")
            # numerical integral of the library's joint over the dropped coordinates
            drop = np.array([i for i in range(D) if i not in dims])
            sd_ = np.sqrt(np.max(np.diagonal(t.Sigma, axis1=1, axis2=2)))
            calm_case = np.max(np.abs(t.mu)) < 1e2 * sd_ and 1e-3 < sd_ < 1e3
            # (the quadrature's own rounding is eps * |exponent|: only judged for O(1) exponents)
            if 1 <= len(drop) <= 2 and len(dims) <= 3 and calm_case:
                for r in range(R):
                    xa = x[:2]
                    mc, Cc = orc.condition(t.mu[r], t.Sigma[r], drop, dims, xa)
                    vals, oks = [], []
                    for n in range(xa.shape[0]):
                        def f(Z, n=n):
                            X = np.zeros((Z.shape[0], D))
                            X[:, dims] = xa[n]
                            X[:, drop] = Z
                            lj = np.asarray(p.evaluate_ln(J(X)))[r]
                            lq = orc.mvn_logpdf(Z, mc[n:n + 1], 1.69 * Cc[None])[0]
                            return np.exp(lj - lq)
                        v, ok = orc.gh_expect(f, mc[n], 1.69 * Cc, orders=(30, 50))
                        vals.append(v)
                        oks.append(ok)
                    if all(oks):
                        got_m = np.exp(np.asarray(m.evaluate_ln(J(xa)))[r])
                        rec.close("marginal = integral of joint", got_m, np.array(vals),
                                  ns=np.abs(np.array(vals)) * (
                                      1 + np.abs(np.log(np.abs(np.array(vals)) + 1e-300))) + 1e-280,
                                  tol_rel=1e-7, detail=inf, mech="marginal-quadrature")
                    else:
                        rec.count("oracle_unconverged")
        rec.sample({"case": info, "mu": t.mu, "Sigma": t.Sigma})
    else:
        for Ds in range(1, D + 1):
            for with_b in (True, False):
                # documented shape of W is [R, Dsum, D]; one weight matrix shared by all components
                # ([1, Dsum, D], the form the library itself passes for its kernels) broadcasts
                for Rw in ((R, 1) if R > 1 else (R,)):
                    inf = dict(info, Dsum=Ds, with_b=with_b, R_W=Rw)
                    W = gen.lin_map(rng, Rw, Ds, D)
                    b = gen.vec(rng, Rw, Ds)
                    Wf = np.broadcast_to(W, (R, Ds, D))
                    bf = np.broadcast_to(b, (R, Ds))
                    S_l = np.einsum("rab,rbc,rdc->rad", Wf, t.Sigma, Wf)
                    S_l = 0.5 * (S_l + np.swapaxes(S_l, 1, 2))
                    if not gen.in_domain(S_l):
                        rec.count("out_of_domain")
                        continue
                    mu_l = np.einsum("rab,rb->ra", Wf, t.mu) + (bf if with_b else 0.0)
                    q = _call(rec, "linear_sum", lambda: p.get_density_of_linear_sum(
                        J(W), J(b) if with_b else None), inf)
                    rec.cell(["linsum", diag, R, D, Ds, with_b, Rw], D > 1)
                    if q is None:
                        continue
                    x = gen.points(rng, 5, mu_l, S_l)
                    got = _call(rec, "evaluate_ln", lambda: q.evaluate_ln(J(x)), inf)
                    if got is not None:
                        rec.close("linear image value", got, orc.mvn_logpdf(x, mu_l, S_l),
                                  ns=orc.mvn_logpdf_abs(x, mu_l, S_l), detail=inf,
                                  mech="linsum-value")
                    rec.close("linear image mu", q.mu, mu_l, ns=np.max(np.abs(mu_l)) + 1e-12,
                              detail=inf, mech="linsum-mu")
                    rec.close("linear image Sigma", q.Sigma, S_l, ns=np.max(np.abs(S_l)),
                              detail=inf, mech="linsum-Sigma")
