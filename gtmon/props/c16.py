"""C16 - moment matching of approximate conditionals is exact."""
import math

import numpy as np

from .. import build, core, gen
from .. import oracles as orc
from ..gen import J, JI
from . import lincommon as lc

PROP = "C16"
MONITORS = ("WF", "FORM")
HOSTILE = ('special',)
ANCHORS = [("approximate_conditional.py", "LConjugateFactorMGaussianConditional.get_expected_moments"),
           ("approximate_conditional.py", "LConjugateFactorMGaussianConditional.get_expected_cross_terms"),
           ("approximate_conditional.py", "LConjugateFactorMGaussianConditional.affine_joint_transformation"),
           ("approximate_conditional.py", "LConjugateFactorMGaussianConditional.affine_conditional_transformation"),
           ("approximate_conditional.py", "LConjugateFactorMGaussianConditional.affine_marginal_transformation"),
           ("approximate_conditional.py", "LRBFGaussianConditional.update_phi"),
           ("approximate_conditional.py", "LSEMGaussianConditional.update_phi"),
           ("approximate_conditional.py", "HeteroscedasticConditional.integrate_Sigma_x"),
           ("approximate_conditional.py", "HeteroscedasticConditional.get_expected_moments"),
           ("approximate_conditional.py", "HeteroscedasticConditional.affine_joint_transformation"),
           ("approximate_conditional.py", "HeteroscedasticConditional.affine_conditional_transformation"),
           ("approximate_conditional.py", "HeteroscedasticExpConditional._integrate_noise_diagonal"),
           ("approximate_conditional.py", "HeteroscedasticCoshM1Conditional._integrate_noise_diagonal"),
           ("approximate_conditional.py", "HeteroscedasticHeavisideConditional._integrate_noise_diagonal"),
           ("approximate_conditional.py", "HeteroscedasticReLUConditional._integrate_noise_diagonal")]
RULE = ("cell = (class in {RBF, squared-exponential, heteroscedastic exp / cosh-1 / step / ReLU}, Dx, "
        "Dy, Dk, Da, R_prior); oracle: E[y], Cov[y] = E[Sigma(x)] + Cov[mu(x)], Cov[y,x] of p(y|x)p(x) "
        "with mu(x), Sigma(x) read from the object's own condition_on_x at Gauss-Hermite nodes (smooth "
        "links, Dx<=2, convergence guard) or Gauss-Legendre panels split at the kinks (step, ReLU, "
        "Dx=1), plus closed forms for any Dx (E exp h, E cosh h - 1, Phi(m/s), m Phi + s phi); the "
        "conditional transformation against the Gaussian conditional of the oracle joint; unit height "
        "of the feature bumps (RBF: 1 at the centre; SE: 1 on w'x + w0 = 0) from the documented "
        "formula; non-trivial: all; distinct = cell tuple")

DIMS_Q = [(1, 1, 1, 1), (1, 2, 2, 2), (2, 1, 1, 2), (2, 2, 2, 3), (1, 2, 4, 4)]  # Dx, Dy, Dk, Da
DIMS_T = DIMS_Q + [(1, 3, 2, 3), (2, 3, 3, 3), (3, 2, 2, 2), (1, 1, 3, 3), (3, 1, 1, 1), (2, 2, 1, 2),
                   (2, 2, 5, 5), (1, 1, 6, 6)]


def cells(tier, seed):
    out = []
    reps = 2 if tier == "quick" else 8
    for ak in build.APPROX_KINDS:
        for (Dx, Dy, Dk, Da) in (DIMS_Q if tier == "quick" else DIMS_T):
            Da_ = None if ak in ("lrbf", "lsem") else max(Da, Dy, Dk)
            for Rx in (1, 3):
                out.append({"ak": ak, "Dx": Dx, "Dy": Dy, "Dk": Dk, "Da": Da_, "Rx": Rx,
                            "reps": reps, "group": [ak, Dx, Dy, Dk, Da_, Rx], "cost": 3.0})
            if ak in build.HET_KINDS and (Dx, Dy) in ((1, 2), (2, 2)):
                # y measured in other units: all covariances equally well conditioned, only scaled
                for ys in (1e-3, 1e3):
                    out.append({"ak": ak, "Dx": Dx, "Dy": Dy, "Dk": Dk, "Da": Da_, "Rx": 1,
                                "yscale": ys, "reps": reps,
                                "group": [ak, Dx, Dy, Dk, Da_, "ys"], "cost": 3.0})
    for ak in ("lrbf", "lsem"):
        for Dx in (1, 2, 3):
            out.append({"unit": ak, "Dx": Dx, "Dk": 3, "reps": reps, "group": ["unit", ak, Dx],
                        "cost": 0.5})
    return out


def Phi(z):
    return 0.5 * (1.0 + np.vectorize(math.erf)(z / math.sqrt(2.0)))


def phi(z):
    return np.exp(-0.5 * z * z) / math.sqrt(2 * math.pi)


def expected_link(kind, m, s):
    if kind == "het_exp":
        return np.exp(m + 0.5 * s * s)
    if kind == "het_cosh":
        return np.exp(0.5 * s * s) * np.cosh(m) - 1.0
    if kind == "het_step":
        return Phi(m / s)
    if kind == "het_relu":
        return m * Phi(m / s) + s * phi(m / s)
    raise KeyError(kind)


def panel_nodes(mu, sd, kinks, order=48, width=10.0):
    """Gauss-Legendre panels on [mu-width*sd, mu+width*sd] split at the kinks; weights include
    the normal density of N(mu, sd^2)."""
    lo, hi = mu - width * sd, mu + width * sd
    pts = sorted([lo] + [k for k in kinks if lo < k < hi] + [hi])
    # refine: split every panel further so the Gaussian weight is resolved
    edges = []
    for a, b in zip(pts[:-1], pts[1:]):
        n = max(1, int(math.ceil((b - a) / (2.0 * sd))))
        edges += list(np.linspace(a, b, n + 1)[:-1])
    edges.append(hi)
    z, w = np.polynomial.legendre.leggauss(order)
    X, W = [], []
    for a, b in zip(edges[:-1], edges[1:]):
        x = 0.5 * (b - a) * z + 0.5 * (a + b)
        X.append(x)
        W.append(0.5 * (b - a) * w * np.exp(-0.5 * ((x - mu) / sd) ** 2) / (sd * math.sqrt(
            2 * math.pi)))
    return np.concatenate(X)[:, None], np.concatenate(W)


def moments_from_nodes(c, X, W, mu_x):
    """first two moments of p(y|x)p(x) from the object's own condition_on_x at nodes X."""
    q = c.condition_on_x(J(X))
    mu = np.asarray(q.mu, dtype=float)  # n Dy
    Sig = np.asarray(q.Sigma, dtype=float)  # n Dy Dy
    Ey = W @ mu
    ES = np.tensordot(W, Sig, axes=(0, 0))
    dm = mu - Ey[None]
    Cm = np.einsum("n,na,nb->ab", W, dm, dm)
    Cyx = np.einsum("n,na,nb->ab", W, dm, X - mu_x[None])
    return Ey, ES + Cm, Cyx, ES


def run_unit(cell, rec, seed):
    ak, Dx, Dk = cell["unit"], cell["Dx"], cell["Dk"]
    for rep in range(cell["reps"]):
        rng = gen.rng_for(seed, "C16u", ak, Dx, Dk, rep)
        Dy = 2
        c, t = build.mk_approx(ak, rng, Dy, Dx, Dk)
        info = {"unit_height": ak, "Dx": Dx, "Dk": Dk}
        rec.cell(["unit", ak, Dx, Dk], True)
        x = gen.vec(rng, 6, Dx, scale=1.5)
        if ak == "lrbf":
            x[:Dk] = t.centers  # the centres themselves: kernel value must be exactly one there
            k = np.exp(-0.5 * np.sum(((x[:, None, :] - t.centers[None]) / t.length_scale[None]) ** 2,
                                     axis=-1))  # n Dk
        else:
            w, w0 = t.W[:, 1:], t.W[:, 0]
            # points on the hyperplanes w_i'x + w0_i = 0
            for i in range(min(Dk, 3)):
                x[i] = x[i] - (x[i] @ w[i] + w0[i]) * w[i] / (w[i] @ w[i])
            k = np.exp(-0.5 * (x @ w.T + w0[None]) ** 2)
        phi_x = np.concatenate([x, k], axis=1)
        ref = phi_x @ t.M[0].T + t.b[0][None]
        got = lc.call(rec, "get_conditional_mu", lambda: c.get_conditional_mu(J(x)), info)
        if got is not None:
            d = dict(info)
            if ak == "lsem":
                # signature of the known sign slip: the bump sits on w'x - w0 = 0
                k2 = np.exp(-0.5 * (x @ t.W[:, 1:].T - t.W[:, 0][None]) ** 2)
                alt = np.concatenate([x, k2], axis=1) @ t.M[0].T + t.b[0][None]
                d["matches_offset_sign_flipped"] = bool(np.allclose(
                    np.asarray(got).reshape(ref.shape), alt, rtol=0, atol=1e-9 * (
                        1 + np.max(np.abs(alt)))))
            rec.close("conditional mean = documented read-out", np.asarray(got).reshape(ref.shape),
                      ref, ns=1.0 + np.abs(phi_x) @ np.abs(t.M[0]).T + np.abs(t.b[0])[None],
                      detail=d, mech=f"unit-height:{ak}")
        kv = lc.call(rec, "k_func.evaluate", lambda: c.k_func.evaluate(J(x)), info)
        if kv is not None:
            rec.close("kernel value (unit height)", np.asarray(kv).T, k, ns=1.0, detail=info,
                      mech=f"unit-height-kernel:{ak}")


def run_cell(cell, rec, seed):
    if "unit" in cell:
        return run_unit(cell, rec, seed)
    ak, Dx, Dy, Dk, Da, Rx = (cell[k] for k in ("ak", "Dx", "Dy", "Dk", "Da", "Rx"))
    het = ak in build.HET_KINDS
    for rep in range(cell["reps"]):
        rng = gen.rng_for(seed, "C16", ak, Dx, Dy, Dk, Da, Rx, rep)
        if het and Dk > (Da or Dy):
            continue
        ys = cell.get("yscale", 1.0)
        c, t = build.mk_approx(ak, rng, Dy, Dx, Dk, Da=Da, kappa=10.0, **(
            {"yscale": ys} if het else {}))
        p, tp = build.mk_pdf(rng, Rx, Dx, kappa=float(rng.choice(gen.KAPPAS[:3])), scale=0.5)
        info = {"ak": ak, "Dx": Dx, "Dy": Dy, "Dk": Dk, "Da": Da, "Rx": Rx, "yscale": ys}
        rec.cell([ak, Dx, Dy, Dk, Da, Rx, ys], True)
        # ---------- oracle moments per prior component
        Ey, Sy, Cyx, src = [], [], [], []
        for r in range(Rx):
            mu_x, S_x = tp.mu[r], tp.Sigma[r]
            done = False
            if ak in ("het_step", "het_relu"):
                if Dx == 1:
                    w, w0 = t.W[:, 1], t.W[:, 0]
                    kinks = [-w0[i] / w[i] for i in range(Dk) if abs(w[i]) > 1e-12]
                    res = []
                    for order in (32, 48):
                        X, W = panel_nodes(mu_x[0], math.sqrt(S_x[0, 0]), kinks, order=order)
                        res.append(moments_from_nodes(c, X, W, mu_x))
                    if all(np.max(np.abs(a - b)) <= 1e-10 * (1 + np.max(np.abs(b)))
                           for a, b in zip(res[0][:3], res[1][:3])):
                        Ey.append(res[1][0]); Sy.append(res[1][1]); Cyx.append(res[1][2])
                        src.append("panel-quadrature of condition_on_x")
                        done = True
                    else:
                        rec.count("oracle_unconverged")
            elif Dx <= 2:
                res = []
                for order in ((60, 90) if Dx == 1 else (32, 44)):
                    X, W = orc.gh_nodes(mu_x, S_x, order)
                    res.append(moments_from_nodes(c, X, W, mu_x))
                if all(np.max(np.abs(a - b)) <= 1e-10 * (1 + np.max(np.abs(b)))
                       for a, b in zip(res[0][:3], res[1][:3])):
                    Ey.append(res[1][0]); Sy.append(res[1][1]); Cyx.append(res[1][2])
                    src.append("Gauss-Hermite quadrature of condition_on_x")
                    done = True
                else:
                    rec.count("oracle_unconverged")
            if not done and het:
                # closed forms, any Dx (mean is linear; only the expected link is non-trivial)
                M, b, A = t.M[0], t.b[0], t.A[0]
                w, w0 = t.W[:, 1:], t.W[:, 0]
                m = w @ mu_x + w0
                s = np.sqrt(np.einsum("ka,ab,kb->k", w, S_x, w))
                El = expected_link(ak, m, s)
                Ak = A[:, :Dk]
                Ey.append(M @ mu_x + b)
                Sy.append(A @ A.T + (Ak * El[None]) @ Ak.T + M @ S_x @ M.T)
                Cyx.append(M @ S_x)
                src.append("closed form")
                done = True
            if not done:
                break
        if len(Ey) < Rx:
            rec.count("no_oracle")
            continue
        Ey, Sy, Cyx = np.stack(Ey), np.stack(Sy), np.stack(Cyx)
        Sy = 0.5 * (Sy + np.swapaxes(Sy, 1, 2))
        Sxy = np.concatenate([np.concatenate([tp.Sigma, np.swapaxes(Cyx, 1, 2)], axis=2),
                              np.concatenate([Cyx, Sy], axis=2)], axis=1)
        # (with y in other units the joint of (x, y) is ill conditioned by construction although
        # every covariance the oracle uses - Cov[y], Cov[x] and the Schur complement - is not)
        if not gen.in_domain(Sy) or (ys == 1.0 and not gen.in_domain(Sxy)):
            rec.count("out_of_domain")
            continue
        info["oracle"] = src[0]
        ns_mu = (1.0 if ys == 1.0 else 0.0) + np.max(np.abs(Ey)) + np.sqrt(np.max(np.abs(Sy)))
        # second moments are differences E[yy'] - E[y]E[y]': natural scale is E[yy']
        ns_S = np.max(np.abs(Sy) + np.abs(Ey)[:, :, None] * np.abs(Ey)[:, None, :], axis=(1, 2),
                      keepdims=True)
        ns_C = np.max(np.abs(Cyx), axis=(1, 2), keepdims=True) + np.max(np.abs(Ey)) * np.max(
            np.abs(tp.mu)) + 1e-6
        # closed forms as a second, independent oracle for the heteroscedastic classes
        if het and src[0] != "closed form":
            M, b, A = t.M[0], t.b[0], t.A[0]
            w, w0 = t.W[:, 1:], t.W[:, 0]
            for r in range(Rx):
                m = w @ tp.mu[r] + w0
                s = np.sqrt(np.einsum("ka,ab,kb->k", w, tp.Sigma[r], w))
                El = expected_link(ak, m, s)
                Ak = A[:, :Dk]
                S_cf = A @ A.T + (Ak * El[None]) @ Ak.T + M @ tp.Sigma[r] @ M.T
                rec.close("quadrature of condition_on_x agrees with closed form", Sy[r], S_cf,
                          ns=ns_S[r], tol_rel=1e-7, detail=info, mech=f"oracle-cross-check:{ak}")
        if t.get("bystander") is not None:
            # another model of the same class and shapes transforms the very same p(x) first
            try:
                t.bystander.affine_joint_transformation(p)
                t.bystander.affine_marginal_transformation(p)
                info = dict(info, bystander_used_same_prior=True)
            except Exception:
                rec.count("bystander_raises")
        m_ = lc.call(rec, "affine_marginal_transformation",
                     lambda: c.affine_marginal_transformation(p), info)
        if m_ is not None:
            rec.close("marginal mean", m_.mu, Ey, ns=ns_mu, detail=info, mech=f"marginal-mean:{ak}")
            rec.close("marginal covariance", m_.Sigma, Sy, ns=ns_S, detail=info,
                      mech=f"marginal-covariance:{ak}")
        j = lc.call(rec, "affine_joint_transformation",
                    lambda: c.affine_joint_transformation(p), info)
        if j is not None:
            rec.close("joint mean", j.mu, np.concatenate([tp.mu, Ey], axis=1),
                      ns=ns_mu + np.max(np.abs(tp.mu)), detail=info, mech=f"joint-mean:{ak}")
            Sj = np.asarray(j.Sigma)
            rec.close("joint: covariance of x", Sj[:, :Dx, :Dx], tp.Sigma,
                      ns=np.max(np.abs(tp.Sigma)), detail=info, mech=f"joint-Sigma-x:{ak}")
            rec.close("joint: covariance of y", Sj[:, Dx:, Dx:], Sy, ns=ns_S, detail=info,
                      mech=f"joint-Sigma-y:{ak}")
            rec.close("joint: cross-covariance of y and x", Sj[:, Dx:, :Dx], Cyx, ns=ns_C,
                      detail=info, mech=f"joint-cross-covariance:{ak}")
            rec.close("joint: symmetric", Sj[:, :Dx, Dx:], np.swapaxes(Cyx, 1, 2), ns=ns_C,
                      detail=info, mech=f"joint-cross-covariance:{ak}")
        post = lc.call(rec, "affine_conditional_transformation",
                       lambda: c.affine_conditional_transformation(p), info)
        if post is not None:
            K = np.einsum("rba,rbc->rac", Cyx, orc.inv(Sy))  # Cov[x,y] Sy^-1
            b_ref = tp.mu - np.einsum("rab,rb->ra", K, Ey)
            S_ref = tp.Sigma - np.einsum("rab,rbc->rac", K, Cyx)
            amp = 1.0 + np.max(np.abs(K))
            rec.close("conditional: gain", post.M, K, ns=np.max(np.abs(K), axis=(1, 2),
                                                                keepdims=True) + 1e-6,
                      tol_rel=1e-8 * gen.cond(Sy), detail=info, mech=f"conditional-gain:{ak}")
            rec.close("conditional: offset", post.b, b_ref, ns=(np.max(np.abs(tp.mu)) + np.max(
                np.abs(K)) * np.max(np.abs(Ey)) + 1e-6), tol_rel=1e-8 * gen.cond(Sy), detail=info,
                mech=f"conditional-offset:{ak}")
            rec.close("conditional: covariance", post.Sigma, S_ref, ns=np.max(np.abs(tp.Sigma)) * amp,
                      tol_rel=1e-8 * gen.cond(Sy), detail=info, mech=f"conditional-covariance:{ak}")
        if rep == 0 and Rx == 1:
            rec.sample({"case": info, "E[y]": Ey, "Cov[y]": Sy, "Cov[y,x]": Cyx})


def classify(mech, d):
    if mech == "unit-height:lsem" and d.get("matches_offset_sign_flipped"):
        return "unit-height:lsem:bump-on-w'x-w0=0"
    return mech
