"""C12 - batches are independent components; slicing commutes with every operation."""
import numpy as np

from .. import build, core, gen
from .. import oracles as orc
from ..gen import J, JI

PROP = "C12"
MONITORS = ("WF", "SPEC", "FORM")
REQUIRED_MONITORS = ("WF",)
HOSTILE = ('special', 'scale')
ANCHORS = [("factor.py", "ConjugateFactor.slice"), ("factor.py", "OneRankFactor.slice"),
           ("factor.py", "LinearFactor.slice"), ("factor.py", "ConstantFactor.slice"),
           ("measure.py", "GaussianMeasure.slice"), ("measure.py", "GaussianDiagMeasure.slice"),
           ("pdf.py", "GaussianPDF.slice"), ("pdf.py", "GaussianPDF.update"),
           ("pdf.py", "GaussianDiagPDF.slice"), ("pdf.py", "GaussianDiagPDF.update"),
           ("conditional.py", "ConditionalGaussianPDF.slice"),
           ("conditional.py", "ConditionalIdentityGaussianPDF.slice"),
           ("conditional.py", "ConditionalIdentityDiagGaussianPDF.slice"),
           ("measure.py", "GaussianMeasure._get_default")]
RULE = ("metamorphic monitor: for each operation of the catalogue (all public operations of factors, "
        "measures, densities, linear and approximate conditionals, truncated measures) and each index "
        "array (permutation, with repetitions and longer than R, negative entries, singleton), "
        "op(full).slice(idx') is compared with op(sliced operands), idx' following the documented "
        "layout (products i*R2+j, conditioning r*N+n, transformations: batch index of the batched "
        "side); update(idx, d) must change exactly the addressed rows; cell = (operation, variant, R, "
        "D, index kind); non-trivial: R>1; distinct = cell tuple")

IDX_KINDS = ("perm", "rep", "neg", "single")


def cells(tier, seed):
    out = []
    Rs = (1, 2, 4) if tier == "quick" else (1, 2, 3, 5, 6)
    Ds = (1, 2) if tier == "quick" else (1, 2, 3)
    for fam in FAMILIES:
        for R in Rs:
            for D in Ds:
                out.append({"fam": fam, "R": R, "D": D, "tier": tier, "group": [fam, R, D],
                            "cost": FAM_COST.get(fam, 1.0)})
        if tier == "quick" and fam.startswith("measure:"):
            # one larger dimension for the measure families (non-diagonal precisions of D = 2
            # are too often special: isotropic, or with an omitted information vector)
            out.append({"fam": fam, "R": 3, "D": 3, "tier": tier, "group": [fam, 3, 3],
                        "cost": FAM_COST.get(fam, 1.0)})
    return out


# ------------------------------------------------------------------------------ helpers
def params_of(o):
    """comparable representation of a result."""
    if o is None:
        return None
    if isinstance(o, (tuple, list)):
        return [params_of(v) for v in o]
    if isinstance(o, dict) and not hasattr(o, "slice"):
        return {k: np.asarray(v, dtype=float) for k, v in o.items()}
    if hasattr(o, "__dict__") and hasattr(o, "slice"):
        names = ("Lambda", "nu", "ln_beta", "M", "b", "Sigma", "ln_det_Sigma", "mu", "v", "g")
        d = o.__dict__
        return {n: np.asarray(d[n], dtype=float) for n in names
                if d.get(n) is not None and hasattr(d[n], "shape")}
    return np.asarray(o, dtype=float)


def slice_result(o, idx):
    if isinstance(o, (tuple, list)):
        return [slice_result(v, idx) for v in o]
    if hasattr(o, "slice") and hasattr(o, "__dict__"):
        return o.slice(JI(idx))
    return np.take(np.asarray(o, dtype=float), idx, axis=0)


def compare(rec, name, a, b, info, mech):
    pa, pb = params_of(a), params_of(b)
    _cmp(rec, name, pa, pb, info, mech)


def _cmp(rec, name, pa, pb, info, mech):
    if isinstance(pa, list):
        for i, (x, y) in enumerate(zip(pa, pb)):
            _cmp(rec, f"{name}[{i}]", x, y, info, mech)
        return
    if isinstance(pa, dict):
        keys = set(pa) | set(pb)
        for k in sorted(keys):
            if k not in pa or k not in pb:
                if k in ("Sigma", "ln_det_Sigma", "mu"):
                    continue  # lazily cached on one side only: not a difference of value
                rec.true(f"{name}.{k} present on both", False, mech=mech + ":missing-" + k,
                         detail=info)
                continue
            rec.close(f"{name}.{k}", pa[k], pb[k], ns=1.0 + np.max(np.abs(pb[k])) if pb[k].size
                      else 1.0, detail=info, mech=mech)
        return
    rec.close(name, pa, pb, ns=1.0 + (np.max(np.abs(pb)) if np.size(pb) else 0.0), detail=info,
              mech=mech)


def mk_idx(rng, R, kind):
    if kind == "perm":
        return rng.permutation(R)
    if kind == "rep":
        return rng.integers(0, R, size=R + 2)
    if kind == "neg":
        return -1 - rng.integers(0, R, size=max(1, R))
    return np.array([int(rng.integers(0, R))])


def norm_idx(idx, R):
    return np.where(np.asarray(idx) < 0, np.asarray(idx) + R, np.asarray(idx))


def take(a, idx):
    """slice a raw array operand (coefficients, observations) along its batch axis."""
    return J(np.take(np.asarray(a, dtype=float), idx, axis=0))


class Case:
    """one operation instance: operands (some batched), how to apply, result layout."""

    def __init__(self, name, operands, batched, apply, layout=None):
        self.name, self.operands, self.batched, self.apply, self.layout = (
            name, operands, batched, apply, layout)


def run_case(rec, rng, case, R, info):
    for kind in IDX_KINDS:
        idx = mk_idx(rng, R, kind)
        nidx = norm_idx(idx, R)
        inf = dict(info, op=case.name, idx_kind=kind, idx=idx.tolist())
        rec.cell([case.name, info.get("R"), info.get("D"), kind], R > 1)
        try:
            full = case.apply(case.operands)
        except Exception as e:
            rec.evaluations += 1
            rec.fail(f"raises-full:{case.name}:{type(e).__name__}@{core.exc_site(e)}",
                     dict(inf, exc=core.exc_info(e)))
            return
        try:
            sl = {}
            for k, v in case.operands.items():
                if k in case.batched:
                    sl[k] = v.slice(JI(idx)) if hasattr(v, "slice") and hasattr(v, "__dict__") \
                        else take(v, idx)
                else:
                    sl[k] = v
            part = case.apply(sl)
        except Exception as e:
            rec.evaluations += 1
            rec.fail(f"raises-sliced:{case.name}:{kind}:{type(e).__name__}@{core.exc_site(e)}",
                     dict(inf, exc=core.exc_info(e)))
            continue
        idx2 = nidx if case.layout is None else case.layout(nidx)
        try:
            ref = slice_result(full, idx2)
        except Exception as e:
            rec.evaluations += 1
            rec.fail(f"raises-slice-result:{case.name}:{type(e).__name__}@{core.exc_site(e)}",
                     dict(inf, exc=core.exc_info(e)))
            continue
        compare(rec, case.name, part, ref, inf, f"slice-commutes:{case.name}")


# ------------------------------------------------------------------------------ families
def fam_measure(rec, rng, R, D, info, mk):
    u, t = build.mk_measure(mk, rng, R, D, kappa=float(rng.choice(gen.KAPPAS[:4])))
    x = J(gen.points(rng, 3, t.mu, t.Sigma))
    xe = J(gen.vec(rng, R, D))
    cs = [
        Case(f"{mk}.evaluate_ln", {"u": u, "x": x}, {"u"}, lambda o: o["u"].evaluate_ln(o["x"])),
        Case(f"{mk}.evaluate", {"u": u, "x": x}, {"u"}, lambda o: o["u"].evaluate(o["x"])),
        Case(f"{mk}.evaluate_ln[element_wise]", {"u": u, "x": xe}, {"u", "x"},
             lambda o: o["u"].evaluate_ln(o["x"], element_wise=True)),
        Case(f"{mk}.log_integral", {"u": u}, {"u"}, lambda o: o["u"].log_integral()),
        Case(f"{mk}.integral_light", {"u": u}, {"u"}, lambda o: o["u"].integral_light()),
        Case(f"{mk}.get_density", {"u": u}, {"u"}, lambda o: o["u"].get_density()),
        Case(f"{mk}.slice.slice", {"u": u}, {"u"},
             lambda o: o["u"].slice(JI(np.arange(o["u"].R)[::-1]))
             if False else o["u"].slice(JI(np.arange(o["u"].R)))),
    ]
    # integrals: shared and per-component coefficients
    K = 2
    A = gen.vec(rng, K, D)
    a = gen.vec(rng, K)
    Ap = gen.vec(rng, R, K, D)
    ap = gen.vec(rng, R, K)
    B = gen.vec(rng, 3, D)
    b = gen.vec(rng, 3)
    for key in ("1", "x", "xx'"):
        cs.append(Case(f"{mk}.integrate[{key}]", {"u": u}, {"u"},
                       lambda o, key=key: o["u"].integrate(key)))
    for key, kwf in (
            ("(Ax+a)", lambda A_, a_: dict(A_mat=A_, a_vec=a_)),
            ("(Ax+a)'(Bx+b)", lambda A_, a_: dict(A_mat=A_, a_vec=a_, B_mat=A_, b_vec=a_)),
            ("(Ax+a)(Bx+b)'", lambda A_, a_: dict(A_mat=A_, a_vec=a_, B_mat=J(B), b_vec=J(b))),
            ("(Ax+a)(Bx+b)'(Cx+c)", lambda A_, a_: dict(A_mat=A_, a_vec=a_, B_mat=J(B), b_vec=J(b),
                                                         C_mat=J(B), c_vec=J(b))),
            ("(Ax+a)'(Bx+b)(Cx+c)'", lambda A_, a_: dict(A_mat=A_, a_vec=a_, B_mat=A_, b_vec=a_,
                                                          C_mat=J(B), c_vec=J(b))),
            ("(Ax+a)'(Bx+b)(Cx+c)'(Dx+d)", lambda A_, a_: dict(
                A_mat=A_, a_vec=a_, B_mat=A_, b_vec=a_, C_mat=J(B), c_vec=J(b), D_mat=J(B),
                d_vec=J(b))),
            ("(Ax+a)(Bx+b)'(Cx+c)(Dx+d)'", lambda A_, a_: dict(
                A_mat=A_, a_vec=a_, B_mat=J(B), b_vec=J(b), C_mat=J(B), c_vec=J(b), D_mat=A_,
                d_vec=a_))):
        cs.append(Case(f"{mk}.integrate[{key}][shared]", {"u": u, "A": J(A), "a": J(a)}, {"u"},
                       lambda o, key=key, kwf=kwf: o["u"].integrate(key, **kwf(o["A"], o["a"]))))
        cs.append(Case(f"{mk}.integrate[{key}][percomp]", {"u": u, "A": J(Ap), "a": J(ap)},
                       {"u", "A", "a"},
                       lambda o, key=key, kwf=kwf: o["u"].integrate(key, **kwf(o["A"], o["a"]))))
    bv = gen.vec(rng, R, D)
    cs.append(Case(f"{mk}.integrate[xb'xx'][percomp]", {"u": u, "b": J(bv)}, {"u", "b"},
                   lambda o: o["u"].integrate("xb'xx'", b_vec=o["b"])))
    Ar = gen.vec(rng, R, 1, D)
    ar = gen.vec(rng, R, 1)
    cs.append(Case(f"{mk}.integrate[x(A'x + a)x'][percomp]", {"u": u, "A": J(Ar), "a": J(ar)},
                   {"u", "A", "a"},
                   lambda o: o["u"].integrate("x(A'x + a)x'", A_mat=o["A"], a_vec=o["a"])))
    # expected log factor: factor batch R or 1
    for fk in ("general", "rank1", "linear", "constant"):
        f1, _ = build.mk_factor(fk, rng, 1, D)
        fR, _ = build.mk_factor(fk, rng, R, D)
        cs.append(Case(f"{mk}.integrate[log u(x)][{fk},R_f=1]", {"u": u, "f": f1}, {"u"},
                       lambda o: o["u"].integrate("log u(x)", factor=o["f"])))
        cs.append(Case(f"{mk}.integrate[log u(x)][{fk},R_f=R]", {"u": u, "f": fR}, {"u", "f"},
                       lambda o: o["u"].integrate("log u(x)", factor=o["f"])))
    for c in cs:
        run_case(rec, rng, c, R, info)


def fam_products(rec, rng, R, D, info):
    for mk in ("measure", "pdf"):
        for fk in build.FACTOR_KINDS:
            for uf in (False, True):
                u, _ = build.mk_measure(mk, rng, R, D, kappa=10.0)
                if uf and mk == "measure" and rng.integers(0, 2):
                    u.integrate()
                R2 = 3
                f, _ = build.mk_factor(fk, rng, R2, D, kappa=10.0)
                run_case(rec, rng, Case(
                    f"{mk}.multiply[{fk},uf={int(uf)}][slice measure]", {"u": u, "f": f}, {"u"},
                    lambda o, uf=uf: o["u"].multiply(o["f"], update_full=uf),
                    layout=lambda idx, R2=R2: (idx[:, None] * R2 + np.arange(R2)[None]).ravel()),
                    R, info)
                u2, _ = build.mk_measure(mk, rng, 2, D, kappa=10.0)
                fR, _ = build.mk_factor(fk, rng, R, D, kappa=10.0)
                run_case(rec, rng, Case(
                    f"{mk}.multiply[{fk},uf={int(uf)}][slice factor]", {"u": u2, "f": fR}, {"f"},
                    lambda o, uf=uf: o["u"].multiply(o["f"], update_full=uf),
                    layout=lambda idx, R=R: (np.arange(2)[:, None] * R + idx[None]).ravel()),
                    R, info)
                fh, _ = build.mk_factor(fk, rng, R, D, kappa=10.0)
                run_case(rec, rng, Case(
                    f"{mk}.hadamard[{fk},uf={int(uf)}][both]", {"u": u, "f": fh}, {"u", "f"},
                    lambda o, uf=uf: o["u"].hadamard(o["f"], update_full=uf)), R, info)
                f1, _ = build.mk_factor(fk, rng, 1, D, kappa=10.0)
                run_case(rec, rng, Case(
                    f"{mk}.hadamard[{fk},uf={int(uf)}][factor R=1]", {"u": u, "f": f1}, {"u"},
                    lambda o, uf=uf: o["u"].hadamard(o["f"], update_full=uf)), R, info)
                u1, _ = build.mk_measure(mk, rng, 1, D, kappa=10.0)
                run_case(rec, rng, Case(
                    f"{mk}.hadamard[{fk},uf={int(uf)}][measure R=1]", {"u": u1, "f": fh}, {"f"},
                    lambda o, uf=uf: o["u"].hadamard(o["f"], update_full=uf)), R, info)
    for fk in ("general", "rank1", "linear", "constant"):
        f, _ = build.mk_factor(fk, rng, R, D)
        x = J(gen.vec(rng, 3, D))
        run_case(rec, rng, Case(f"factor[{fk}].evaluate_ln", {"f": f, "x": x}, {"f"},
                                lambda o: o["f"].evaluate_ln(o["x"])), R, info)


def fam_density(rec, rng, R, D, info):
    L = build.lib()
    for diag in (False, True):
        tag = "diag_pdf" if diag else "pdf"
        p, t = build.mk_pdf(rng, R, D, kappa=float(rng.choice(gen.KAPPAS[:4])), diag=diag)
        q, tq = build.mk_pdf(rng, R, D, kappa=10.0, diag=diag)
        q1, _ = build.mk_pdf(rng, 1, D, kappa=10.0, diag=diag)
        cs = [
            Case(f"{tag}.entropy", {"p": p}, {"p"}, lambda o: o["p"].entropy()),
            Case(f"{tag}.kl_divergence[R,R]", {"p": p, "q": q}, {"p", "q"},
                 lambda o: o["p"].kl_divergence(o["q"])),
            Case(f"{tag}.kl_divergence[R,1]", {"p": p, "q": q1}, {"p"},
                 lambda o: o["p"].kl_divergence(o["q"])),
            Case(f"{tag}.kl_divergence[1,R]", {"p": q1, "q": p}, {"q"},
                 lambda o: o["p"].kl_divergence(o["q"])),
        ]
        W = gen.lin_map(rng, R, 1, D)
        bb = gen.vec(rng, R, 1)
        cs.append(Case(f"{tag}.get_density_of_linear_sum", {"p": p, "W": J(W), "b": J(bb)},
                       {"p", "W", "b"},
                       lambda o: o["p"].get_density_of_linear_sum(o["W"], o["b"])))
        if D > 1:
            dims = JI(rng.permutation(D)[: D - 1])
            cs.append(Case(f"{tag}.get_marginal", {"p": p}, {"p"},
                           lambda o: o["p"].get_marginal(dims)))
            cs.append(Case(f"{tag}.condition_on", {"p": p}, {"p"},
                           lambda o: o["p"].condition_on(dims[:1])))
            cs.append(Case(f"{tag}.condition_on_explicit", {"p": p}, {"p"},
                           lambda o: o["p"].condition_on_explicit(dims[:1], dims[1:]) if D > 2
                           else o["p"].condition_on_explicit(JI([0]), JI([1]))))
        for c in cs:
            run_case(rec, rng, c, R, info)
        # objects derived from p are independent of it: updating them in place leaves p unchanged
        for dname, mk_derived in (("slice", lambda: p.slice(JI(np.arange(R)))),
                                  ("get_density", lambda: p.get_density())):
            snap = params_of(p)
            try:
                dd = mk_derived()
                d1, _ = build.mk_pdf(rng, 1, D, kappa=10.0, diag=diag)
                dd.update(JI([0]), d1)
                dd.normalize()
                after = params_of(p)
                rec.cell([f"{tag}.{dname}+update leaves source", R, D], R > 1)
                for name in snap:
                    rec.close(f"source unchanged after update of its {dname}: {name}", after[name],
                              snap[name], exact=True, detail=dict(info, derived=dname),
                              mech=f"aliasing:{tag}.{dname}")
            except Exception as e:
                rec.evaluations += 1
                rec.fail(f"raises:aliasing:{dname}:{type(e).__name__}@{core.exc_site(e)}",
                         dict(info, exc=core.exc_info(e)))
        # update(idx, d) replaces exactly the addressed components
        cls = L.pdf.GaussianDiagPDF if diag else L.pdf.GaussianPDF
        k = int(rng.integers(1, R + 1))
        uidx = rng.permutation(R)[:k]
        if rng.integers(0, 2):
            uidx = uidx - R  # negative indices address the same rows
        d, td = build.mk_pdf(rng, k, D, kappa=10.0, diag=diag)
        pu = cls(Sigma=J(t.Sigma), mu=J(t.mu))
        before = params_of(pu)
        try:
            pu.update(JI(uidx), d)
            after = params_of(pu)
            inf = dict(info, op=f"{tag}.update", idx=uidx.tolist())
            rec.cell([f"{tag}.update", R, D], R > 1)
            newp = params_of(d)
            for name in before:
                exp = before[name].copy()
                exp[uidx % R] = newp[name]
                rec.close(f"update: {name}", after[name], exp, ns=1.0 + np.max(np.abs(exp)),
                          exact=True, detail=inf, mech=f"update-exact-rows:{tag}")
            x = J(gen.points(rng, 3, t.mu, t.Sigma))
            mu2, S2 = t.mu.copy(), t.Sigma.copy()
            mu2[uidx % R], S2[uidx % R] = td.mu, td.Sigma
            rec.close("update: function", pu.evaluate_ln(x), orc.mvn_logpdf(np.asarray(x), mu2, S2),
                      ns=orc.mvn_logpdf_abs(np.asarray(x), mu2, S2), detail=inf,
                      mech=f"update-function:{tag}")
            rec.close("update: reported mass", pu.integrate(), np.ones(R), ns=1.0, detail=inf,
                      mech=f"update-mass:{tag}")
        except Exception as e:
            rec.evaluations += 1
            rec.fail(f"raises:update:{type(e).__name__}@{core.exc_site(e)}",
                     dict(info, exc=core.exc_info(e)))


def fam_conditional(rec, rng, R, D, info, ck):
    Dx = D
    for Dy in ((1, 2) if not ck.startswith("identity") else (D,)):
        c, tc, kw = build.mk_conditional(ck, rng, R, Dy, Dx, kappa=10.0)
        c1, _, kw1 = build.mk_conditional(ck, rng, 1, Dy, Dx, kappa=10.0)
        N = 2
        x = J(gen.vec(rng, N, Dx))
        pR, _ = build.mk_pdf(rng, R, Dx, kappa=10.0)
        p1, _ = build.mk_pdf(rng, 1, Dx, kappa=10.0)
        pyxR, _ = build.mk_pdf(rng, R, Dy + Dx, kappa=10.0)
        pyx1, _ = build.mk_pdf(rng, 1, Dy + Dx, kappa=10.0)
        yR = J(gen.vec(rng, R, Dy))
        tag = f"cond[{ck},Dy={Dy}]"
        cs = []
        if ck == "nn":
            # the batch of an NN-controlled conditional is carried by the control input u
            u = kw["u"]
            cs += [
                Case(f"{tag}.condition_on_x_u", {"c": c, "u": u, "x": x}, {"u"},
                     lambda o: o["c"].condition_on_x_u(o["x"], o["u"]),
                     layout=lambda idx: (idx[:, None] * N + np.arange(N)[None]).ravel()),
                Case(f"{tag}.set_y[paired]", {"c": c, "u": u, "y": yR}, {"u", "y"},
                     lambda o: o["c"].set_y(o["y"], o["u"])),
                Case(f"{tag}.set_control_variable", {"c": c, "u": u}, {"u"},
                     lambda o: o["c"].set_control_variable(o["u"])),
            ]
            for nm in ("affine_joint_transformation", "affine_marginal_transformation",
                       "affine_conditional_transformation", "conditional_entropy"):
                cs.append(Case(f"{tag}.{nm}[(n,1)]", {"c": c, "u": u, "p": p1}, {"u"},
                               lambda o, nm=nm: getattr(o["c"], nm)(o["p"], o["u"])))
                cs.append(Case(f"{tag}.{nm}[(1,n)]", {"c": c, "u": kw1["u"], "p": pR}, {"p"},
                               lambda o, nm=nm: getattr(o["c"], nm)(o["p"], o["u"])))
        else:
            cs += [
                Case(f"{tag}.condition_on_x", {"c": c, "x": x}, {"c"},
                     lambda o: o["c"].condition_on_x(o["x"]),
                     layout=lambda idx: (idx[:, None] * N + np.arange(N)[None]).ravel()),
                Case(f"{tag}.get_conditional_mu", {"c": c, "x": x}, {"c"},
                     lambda o: o["c"].get_conditional_mu(o["x"])),
                Case(f"{tag}.set_y[paired]", {"c": c, "y": yR}, {"c", "y"},
                     lambda o: o["c"].set_y(o["y"])),
                Case(f"{tag}.set_y[broadcast]", {"c": c1, "y": yR}, {"y"},
                     lambda o: o["c"].set_y(o["y"])),
            ]
            for nm in ("affine_joint_transformation", "affine_marginal_transformation",
                       "affine_conditional_transformation", "conditional_entropy",
                       "mutual_information"):
                cs.append(Case(f"{tag}.{nm}[(n,1)]", {"c": c, "p": p1}, {"c"},
                               lambda o, nm=nm: getattr(o["c"], nm)(o["p"])))
                cs.append(Case(f"{tag}.{nm}[(1,n)]", {"c": c1, "p": pR}, {"p"},
                               lambda o, nm=nm: getattr(o["c"], nm)(o["p"])))
            # update_Sigma on a batch: component r must get its new covariance whatever the other
            # components do (first component changes a lot, the others by parts in a million)
            S_old = np.asarray(c.Sigma, dtype=float)
            S_upd = S_old * (1.0 + 4e-6)
            S_upd[0] = gen.spd(rng, Dy, 10.0, diag=ck in ("diag", "identity_diag")) * 3.0

            def upd(o):
                cc = o["c"].slice(JI(np.arange(o["c"].R)))  # a copy: update_Sigma works in place
                cc.update_Sigma(o["S"])
                return cc
            cs.append(Case(f"{tag}.update_Sigma[mixed change]", {"c": c, "S": J(S_upd)},
                           {"c", "S"}, upd))
            cs.append(Case(f"{tag}.integrate_log_conditional[(1,n)]", {"c": c1, "p": pyxR}, {"p"},
                           lambda o: o["c"].integrate_log_conditional(o["p"])))
            if not ck.startswith("identity"):
                cs.append(Case(f"{tag}.integrate_log_conditional[(n,n)]", {"c": c, "p": pyxR},
                               {"c", "p"}, lambda o: o["c"].integrate_log_conditional(o["p"])))
            cs.append(Case(f"{tag}.integrate_log_conditional_y[(1,n)]",
                           {"c": c1, "p": pR, "y": yR}, {"p", "y"},
                           lambda o: o["c"].integrate_log_conditional_y(o["p"], y=o["y"])))
        for cse in cs:
            run_case(rec, rng, cse, R, info)


def fam_approx(rec, rng, R, D, info):
    Dx = D
    for ak in ("lrbf", "lsem"):
        c, tc = build.mk_approx(ak, rng, 2, Dx, 2)
        pR, _ = build.mk_pdf(rng, R, Dx, kappa=10.0, scale=0.5)
        pyxR, _ = build.mk_pdf(rng, R, 2 + Dx, kappa=10.0, scale=0.5)
        yR = J(gen.vec(rng, R, 2))
        x = J(gen.vec(rng, R, Dx))
        cs = [Case(f"{ak}.get_conditional_mu", {"c": c, "x": x}, {"x"},
                   lambda o: o["c"].get_conditional_mu(o["x"])),
              Case(f"{ak}.condition_on_x", {"c": c, "x": x}, {"x"},
                   lambda o: o["c"].condition_on_x(o["x"]))]
        for nm in ("affine_joint_transformation", "affine_marginal_transformation",
                   "affine_conditional_transformation"):
            cs.append(Case(f"{ak}.{nm}[batched prior]", {"c": c, "p": pR}, {"p"},
                           lambda o, nm=nm: getattr(o["c"], nm)(o["p"])))
        cs.append(Case(f"{ak}.integrate_log_conditional[batched q]", {"c": c, "p": pyxR}, {"p"},
                       lambda o: o["c"].integrate_log_conditional(o["p"])))
        cs.append(Case(f"{ak}.integrate_log_conditional_y[batched prior]",
                       {"c": c, "p": pR, "y": yR}, {"p", "y"},
                       lambda o: o["c"].integrate_log_conditional_y(o["p"], y=o["y"])))
        for cse in cs:
            run_case(rec, rng, cse, R, info)
    for ak in build.HET_KINDS:
        c, tc = build.mk_approx(ak, rng, 2, Dx, 2, Da=2)
        x = J(gen.vec(rng, R, Dx, scale=0.7))
        pR, _ = build.mk_pdf(rng, R, Dx, kappa=10.0, scale=0.5)
        yR = J(gen.vec(rng, R, 2))
        cs = [Case(f"{ak}.condition_on_x", {"c": c, "x": x}, {"x"},
                   lambda o: o["c"].condition_on_x(o["x"])),
              Case(f"{ak}.get_conditional_cov", {"c": c, "x": x}, {"x"},
                   lambda o: o["c"].get_conditional_cov(o["x"])),
              # documented calling convention: N observations paired with N prior components
              Case(f"{ak}.integrate_log_conditional_y[paired]", {"c": c, "p": pR, "y": yR},
                   {"p", "y"}, lambda o: o["c"].integrate_log_conditional_y(o["p"], y=o["y"]))]
        for nm in ("affine_joint_transformation", "affine_marginal_transformation",
                   "affine_conditional_transformation"):
            cs.append(Case(f"{ak}.{nm}[batched prior]", {"c": c, "p": pR}, {"p"},
                           lambda o, nm=nm: getattr(o["c"], nm)(o["p"])))
        for cse in cs:
            run_case(rec, rng, cse, R, info)


def fam_truncated(rec, rng, R, D, info):
    from gaussian_toolbox.experimental import truncated_measure as tm

    for mk in ("measure", "pdf"):
        u, t = build.mk_measure(mk, rng, R, 1, kappa=1.0)
        sd = np.sqrt(t.Sigma[:, 0, 0])
        lo = (t.mu[:, 0] - rng.uniform(0.2, 2.0, R) * sd)[:, None]
        hi = (t.mu[:, 0] + rng.uniform(0.2, 2.0, R) * sd)[:, None]
        x = J(gen.vec(rng, 4, 1))
        mk_t = lambda o: tm.TruncatedGaussianMeasure(measure=o["u"], lower_limit=o["lo"],
                                                     upper_limit=o["hi"])
        ops = {"u": u, "lo": J(lo), "hi": J(hi), "x": x}
        cs = [Case(f"truncated[{mk}].__call__", ops, {"u", "lo", "hi"},
                   lambda o: mk_t(o)(o["x"]))]
        for key in ("1", "x", "x**2"):
            cs.append(Case(f"truncated[{mk}].integrate[{key}]", ops, {"u", "lo", "hi"},
                           lambda o, key=key: mk_t(o).integrate(key)))
        cs.append(Case(f"truncated[{mk}].integrate[x**k,k=3]", ops, {"u", "lo", "hi"},
                       lambda o: mk_t(o).integrate("x**k", k=3)))
        cs.append(Case(f"truncated[{mk}].get_density.mean/var", ops, {"u", "lo", "hi"},
                       lambda o: (mk_t(o).get_density().get_mean(),
                                  mk_t(o).get_density().get_variance())))
        for cse in cs:
            run_case(rec, rng, cse, R, info)


FAMILIES = (["measure:" + mk for mk in build.MEASURE_KINDS] + ["products", "density"]
            + ["cond:" + ck for ck in build.COND_KINDS] + ["approx", "truncated"])
FAM_COST = {"products": 6.0, "approx": 4.0, "density": 2.0}


def run_cell(cell, rec, seed):
    fam, R, D = cell["fam"], cell["R"], cell["D"]
    rng = gen.rng_for(seed, "C12", fam, R, D)
    info = {"fam": fam, "R": R, "D": D}
    if fam.startswith("measure:"):
        fam_measure(rec, rng, R, D, info, fam.split(":")[1])
    elif fam == "products":
        fam_products(rec, rng, R, D, info)
    elif fam == "density":
        fam_density(rec, rng, R, D, info)
    elif fam.startswith("cond:"):
        fam_conditional(rec, rng, R, D, info, fam.split(":")[1])
    elif fam == "approx":
        fam_approx(rec, rng, R, D, info)
    elif fam == "truncated":
        if D == 1:
            fam_truncated(rec, rng, R, D, info)
