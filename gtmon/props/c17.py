"""C17 - heteroscedastic conditionals: coherent p(y|x) and valid lower bounds."""
import math

import numpy as np

from .. import build, core, gen
from .. import oracles as orc
from ..gen import J, JI
from . import lincommon as lc
from .c16 import panel_nodes

PROP = "C17"
MONITORS = ("WF", "FORM")
HOSTILE = ('special',)
ANCHORS = [("approximate_conditional.py", "HeteroscedasticConditional.get_conditional_cov"),
           ("approximate_conditional.py", "HeteroscedasticConditional.condition_on_x"),
           ("approximate_conditional.py", "HeteroscedasticConditional.integrate_log_conditional_y"),
           ("approximate_conditional.py", "HeteroscedasticConditional.get_lb_log_det"),
           ("approximate_conditional.py", "HeteroscedasticConditional.get_lb_quadratic_term"),
           ("approximate_conditional.py", "HeteroscedasticConditional._get_omega_star"),
           ("approximate_conditional.py", "HeteroscedasticExpConditional._lower_bound_integrals"),
           ("approximate_conditional.py", "HeteroscedasticCoshM1Conditional._lower_bound_integrals"),
           ("approximate_conditional.py", "HeteroscedasticReLUConditional._lower_bound_integrals"),
           ("approximate_conditional.py", "HeteroscedasticHeavisideConditional.get_lb_heteroscedastic_term_i"),
           ("approximate_conditional.py", "HeteroscedasticHeavisideConditional.get_lb_log_det"),
           ("experimental/truncated_measure.py", "TruncatedGaussianMeasure._get_moment")]
RULE = ("cell = (link in {exp, cosh-1, step, ReLU}, (Dx, Dy, Da, Dk) with Da=Dy and Da>Dy, calling "
        "convention in {one observation with one prior, N observations paired with N priors}, weight "
        "scale in {1, 0.3, 0.1, 0.01, 0}); checks: coherence of condition_on_x (mean, covariance, "
        "precision = inverse, log-determinant) against NumPy; bound <= truth + 1e-7 (exp, cosh-1, "
        "ReLU), bound = truth (step), truth = E_p(x) ln N(y; Mx+b, Sigma(x)) by Gauss-Legendre panels "
        "split at the kinks (Dx=1) or Gauss-Hermite (Dx=2, smooth links) with the oracle's own "
        "log-density; tightness: gap(eps/10) <= gap(eps)/30 for eps in {0.1, 0.01}, gap = 0 at zero "
        "weights (exp, cosh-1); non-trivial: all; distinct = cell tuple")

SHAPES_Q = [(1, 1, 1, 1), (1, 2, 2, 2), (1, 2, 3, 2), (2, 2, 2, 1), (1, 1, 2, 2)]  # Dx Dy Da Dk
SHAPES_T = SHAPES_Q + [(1, 3, 3, 2), (2, 2, 3, 2), (2, 1, 1, 1), (1, 2, 4, 3), (2, 3, 3, 3)]


def cells(tier, seed):
    out = []
    reps = 1 if tier == "quick" else 6
    for ak in build.HET_KINDS:
        for (Dx, Dy, Da, Dk) in (SHAPES_Q if tier == "quick" else SHAPES_T):
            if Dx == 2 and ak in ("het_step", "het_relu") and Dk > 1:
                # truth by quadrature needs kink-split panels (one kink line); coherence only
                out.append({"ak": ak, "Dx": Dx, "Dy": Dy, "Da": Da, "Dk": Dk, "mode": "coherence",
                            "reps": reps, "group": [ak, Dx, Dy, Da, Dk], "cost": 1.0})
                continue
            for N in (1, 3):
                out.append({"ak": ak, "Dx": Dx, "Dy": Dy, "Da": Da, "Dk": Dk, "mode": "bounds",
                            "N": N, "reps": reps, "group": [ak, Dx, Dy, Da, Dk, N], "cost": 6.0})
        # no noise unit at all (W of shape [0, Dx+1], accepted by the constructor): the conditional
        # is homoscedastic and every link's value is the exact expected log-density
        out.append({"ak": ak, "Dx": 1, "Dy": 2, "Da": 2, "Dk": 0, "mode": "bounds", "N": 3,
                    "reps": reps, "group": [ak, "Dk0"], "cost": 2.0})
        # nearly collinear rows of A: cond(AA') = 1e4, the edge of the input domain
        out.append({"ak": ak, "Dx": 1, "Dy": 2, "Da": 2, "Dk": 1, "mode": "bounds", "N": 1,
                    "A_kappa": 1e4, "reps": reps, "group": [ak, "Acond"], "cost": 6.0})
        if ak in ("het_exp", "het_cosh"):
            # p(x) far out: |w'x + w0| of 50 .. 90 (noise variances of e^50 .. e^90)
            out.append({"ak": ak, "Dx": 1, "Dy": 2, "Da": 2, "Dk": 1, "mode": "bounds", "N": 1,
                        "far_x": True, "reps": reps, "group": [ak, "far"], "cost": 4.0})
    return out


def truth(t, mu_x, S_x, y, Dx):
    """E_{N(mu_x,S_x)} ln N(y; Mx+b, Sigma(x)) with the oracle's own log-density.
    returns (value, converged)."""
    M, b = t.M[0], t.b[0]

    def f(X):
        S = build.het_cov(t, X)
        if np.max(np.abs(S)) > 1e12:
            return f_mp(X, S)
        return orc.mvn_logpdf_elem(np.tile(y[None], (X.shape[0], 1)), X @ M.T + b[None], S)

    def f_mp(X, S):
        # noise variances of e^50 and more: the log-density in 50-digit arithmetic
        import mpmath as mp

        mp.mp.dps = 60
        out = []
        A = mp.matrix(t.A[0].tolist())
        AAt = A * A.T
        link = {"het_exp": mp.exp, "het_cosh": lambda h: mp.cosh(h) - 1,
                "het_step": lambda h: mp.mpf(1 if h >= 0 else 0),
                "het_relu": lambda h: max(h, mp.mpf(0))}[t.kind]
        for n in range(X.shape[0]):
            # the covariance assembled in high precision as well (in float64 the homoscedastic
            # part is lost next to e^50 and the matrix becomes numerically singular)
            Sm = AAt.copy()
            for k in range(t.Dk):
                h = sum(mp.mpf(float(t.W[k, 1 + j])) * mp.mpf(float(X[n, j]))
                        for j in range(X.shape[1])) + mp.mpf(float(t.W[k, 0]))
                ak_ = A[:, k]
                Sm = Sm + link(h) * (ak_ * ak_.T)
            r = mp.matrix((y - (X[n] @ M.T + b)).tolist())
            q = (r.T * (Sm ** -1) * r)[0]
            out.append(float(-(q + len(y) * mp.log(2 * mp.pi) + mp.log(mp.det(Sm))) / 2))
        return np.array(out)

    if Dx == 1:
        w, w0 = t.W[:, 1], t.W[:, 0]
        kinks = [-w0[i] / w[i] for i in range(t.Dk) if abs(w[i]) > 1e-12] \
            if t.kind in ("het_step", "het_relu") else []
        vals = []
        for order in (32, 48):
            X, W = panel_nodes(mu_x[0], math.sqrt(S_x[0, 0]), kinks, order=order, width=9.0)
            vals.append(float(W @ f(X)))
        return vals[1], abs(vals[0] - vals[1]) <= 1e-9 * (1 + abs(vals[1]))
    if Dx == 2 and t.Dk == 1 and t.kind in ("het_step", "het_relu"):
        # one kink line w'x + w0 = 0: x = mu + L z, rotate z so that the link depends on the first
        # rotated coordinate only; Gauss-Legendre panels split at the kink in that coordinate,
        # Gauss-Hermite in the other
        L_ = np.linalg.cholesky(S_x)
        w, w0 = t.W[0, 1:], t.W[0, 0]
        a = L_.T @ w
        s_ = float(np.linalg.norm(a))
        if s_ < 1e-12:
            u1, kinks = np.array([1.0, 0.0]), []
        else:
            u1 = a / s_
            kinks = [-(float(w @ mu_x) + w0) / s_]
        u2 = np.array([-u1[1], u1[0]])
        vals = []
        for (o1, o2) in ((32, 40), (48, 60)):
            Z1, W1 = panel_nodes(0.0, 1.0, kinks, order=o1, width=9.0)
            z2, w2 = np.polynomial.hermite_e.hermegauss(o2)
            w2 = w2 / math.sqrt(2 * math.pi)
            Zg = Z1[:, 0][:, None, None] * u1[None, None, :] + z2[None, :, None] * u2[None, None, :]
            X = mu_x[None, None, :] + np.einsum("ab,ijb->ija", L_, Zg)
            F = f(X.reshape(-1, 2)).reshape(len(W1), len(w2))
            vals.append(float(W1 @ F @ w2))
        return vals[1], abs(vals[0] - vals[1]) <= 1e-9 * (1 + abs(vals[1]))
    try:
        v, ok = orc.gh_expect(f, mu_x, S_x, orders=(36, 50), rel=1e-9)
    except np.linalg.LinAlgError:
        return float("nan"), False  # exp link overflowing at far nodes: the oracle cannot be formed
    return float(v), ok


def scaled(t, eps):
    W = t.W.copy()
    W[:, 1:] = W[:, 1:] * eps
    tt = build.Truth(t)
    tt["W"] = W
    return tt


def make(ak, tt):
    L = build.lib()
    A_ = L.approx
    cls = {"het_exp": A_.HeteroscedasticExpConditional,
           "het_cosh": A_.HeteroscedasticCoshM1Conditional,
           "het_step": A_.HeteroscedasticHeavisideConditional,
           "het_relu": A_.HeteroscedasticReLUConditional}[ak]
    return cls(M=J(tt.M), b=J(tt.b), A=J(tt.A), W=J(tt.W))


def coherence(rec, c, t, rng, info, regime):
    Dx = t.M.shape[2]
    x = gen.vec(rng, 4, Dx, scale=0.8)
    q = lc.call(rec, "condition_on_x", lambda: c.condition_on_x(J(x)), info)
    if q is None:
        return
    S_ref = build.het_cov(t, x)
    if not gen.in_domain(S_ref):
        rec.count("out_of_domain")
        return
    mu_ref = x @ t.M[0].T + t.b[0][None]
    rec.close("mean = Mx+b", q.mu, mu_ref, ns=1.0 + np.max(np.abs(mu_ref)), detail=info,
              mech=f"coherence-mean:{regime}")
    rec.close("covariance = AA' + A_k diag(link) A_k'", q.Sigma, S_ref,
              ns=np.max(np.abs(S_ref), axis=(1, 2), keepdims=True), detail=info,
              mech=f"coherence-covariance:{regime}")
    L_ref = orc.inv(S_ref)
    rec.close("precision = inverse covariance", q.Lambda, L_ref,
              ns=np.max(np.abs(L_ref), axis=(1, 2), keepdims=True), detail=info,
              mech=f"coherence-precision:{regime}")
    ld = orc.slogdet(S_ref)
    rec.close("ln_det_Sigma = log-determinant", q.ln_det_Sigma, ld,
              ns=1.0 + np.abs(ld) + S_ref.shape[-1], detail=info, mech=f"coherence-logdet:{regime}")
    cov = lc.call(rec, "get_conditional_cov", lambda: c.get_conditional_cov(J(x)), info)
    if cov is not None:
        rec.close("get_conditional_cov", cov, S_ref, ns=np.max(np.abs(S_ref), axis=(1, 2),
                                                              keepdims=True), detail=info,
                  mech=f"coherence-covariance:{regime}")


def run_cell(cell, rec, seed):
    ak, Dx, Dy, Da, Dk = (cell[k] for k in ("ak", "Dx", "Dy", "Da", "Dk"))
    regime = "Da>Dy" if Da > Dy else "Da=Dy"
    for rep in range(cell["reps"]):
        rng = gen.rng_for(seed, "C17", ak, Dx, Dy, Da, Dk, cell.get("N"), rep)
        for attempt in range(20):
            c, t = build.mk_approx(ak, rng, Dy, Dx, Dk, Da=Da, wscale=0.8,
                                   A_kappa=cell.get("A_kappa"))
            if gen.in_domain((t.A[0] @ t.A[0].T)[None], kmax=1.1e4 if cell.get("A_kappa") else 1e3):
                break
            rec.count("out_of_domain")
        info = {"ak": ak, "Dx": Dx, "Dy": Dy, "Da": Da, "Dk": Dk, "regime": regime,
                "A_kappa": cell.get("A_kappa"), "far_x": bool(cell.get("far_x"))}
        rec.cell([ak, Dx, Dy, Da, Dk, cell["mode"], cell.get("N"), cell.get("A_kappa"),
                  cell.get("far_x")], True)
        coherence(rec, c, t, rng, info, regime)
        if cell["mode"] != "bounds":
            continue
        N = cell["N"]
        p, tp = build.mk_pdf(rng, N, Dx, kappa=10.0, scale=0.5)
        if cell.get("far_x"):
            # one prior, centred where the linear predictor of the noise unit is 50 .. 90
            w1, w01 = t.W[0, 1], t.W[0, 0]
            h_t = float(rng.uniform(50, 90)) * float(rng.choice([-1.0, 1.0]))
            mu_far = np.array([[(h_t - w01) / w1]])
            tp = build.Truth(mu=mu_far, Sigma=np.array([[[0.01 / w1 ** 2]]]))
            p = build.lib().pdf.GaussianPDF(Sigma=J(tp.Sigma), mu=J(tp.mu))
        # observations near the predictive mean
        y = (tp.mu @ t.M[0].T + t.b[0][None]) + gen.vec(rng, N, Dy, scale=1.0)
        # the step / rectified-linear bounds divide by the input weight: their float64 rounding
        # grows like 1/w^2 and reaches 1e-6 at weight scale 1e-3 (measured: gap 2.7e-6 there
        # after 8e-9 and 6e-9 at 1e-1 and 1e-2), beyond the 1e-7 absolute allowance the property
        # grants to the quadrature. For these two links the smallest judged scale is 1e-2 (the
        # pair eps = 1e-1 of the decay criterion); the smooth links are judged down to 1e-3.
        scales = (1.0, 0.3, 0.1, 0.03, 0.01) + (
            (0.003, 0.001, 0.0) if ak in ("het_exp", "het_cosh") else ())
        if cell.get("far_x") or Dk == 0:
            scales = (1.0,)
        if cell.get("A_kappa"):
            # nearly collinear A: the step / rectified-linear bounds divide by the input weight,
            # and with cond(AA') = 1e4 their float64 rounding alone reaches 1e-6 .. 1e-3 once the
            # weight scale is <= 1e-2 (measured; gaps become noisy and change sign). That is
            # rounding relative to the natural scale ~ cond / w^2 of the terms involved, not a
            # looseness of the bound, so here only O(1) weight scales (validity, coherence) and the
            # exact zero-weight value of the smooth links are judged.
            scales = (1.0, 0.3) + ((0.0,) if ak in ("het_exp", "het_cosh") else ())
        gaps = {}
        for eps in scales:
            tt = scaled(t, eps)
            ce = c if eps == 1.0 else make(ak, tt)
            inf = dict(info, N=N, eps=eps)
            lb = lc.call(rec, "integrate_log_conditional_y",
                         lambda: ce.integrate_log_conditional_y(p, y=J(y)), inf)
            if lb is None:
                continue
            lb = np.asarray(lb, dtype=float).reshape(-1)
            tr, oks = [], []
            for n in range(N):
                v, ok = truth(tt, tp.mu[n], tp.Sigma[n], y[n], Dx)
                tr.append(v)
                oks.append(ok)
            if not all(oks):
                rec.count("oracle_unconverged")
                continue
            tr = np.array(tr)
            if lb.shape != tr.shape:
                rec.true("one value per observation", False, detail=dict(inf, shape=list(lb.shape)),
                         mech=f"bound-shape:{ak}:{regime}")
                continue
            gap = tr - lb
            gaps[eps] = gap
            d = dict(inf, bound=lb, truth=tr, gap=gap)
            if Dk == 0:
                rec.close("no noise unit: value equals the true expectation", lb, tr,
                          ns=1.0 + np.abs(tr), detail=d, mech=f"homoscedastic-not-exact:{ak}")
            elif ak == "het_step":
                rec.close("step link: value equals the true expectation", lb, tr,
                          ns=np.maximum(1.0, 1e-7 / 1e-8) * np.ones_like(tr), detail=d,
                          mech=f"step-not-exact:{regime}")
            else:
                rec.leq("bound <= true expectation", lb, tr, allow=1e-7, detail=d,
                        mech=f"bound-invalid:{ak}:{regime}")
            if eps == 0.0:
                rec.close("gap = 0 at zero weights", gap, np.zeros(N), ns=10.0 * np.ones(N),
                          detail=d, mech=f"gap-nonzero-at-zero-weights:{ak}:{regime}")
        # tightness: quadratic decay of the gap in the homoscedastic limit. The property's
        # criterion gap(eps/10) <= gap(eps)/30 is applied with eps' = 10 eps and, so that an
        # *optimised* (smaller) gap at the larger scale is never held against the library, also
        # with every larger explored scale eps': gap(e) <= (100/30) gap(eps') (e/eps')^2. A gap
        # that decays linearly or not at all fails against every eps'. The constant of the O(eps^2)
        # claim is taken per cell (largest gap over the N paired observations at eps'), not per
        # observation: one observation whose gap at the larger scales happens to be 100 times
        # smaller than its own quadratic trend (observed: 8.8e-6 at 0.1 between 1.2e-4 at 0.03 and
        # 1.4e-5, 1.3e-6, 1.3e-7 at 0.01, 0.003, 0.001 - a clean factor 9 to 11 per factor 3) must
        # not be held against the library either.
        for e2 in (0.01, 0.001):
            if e2 not in gaps:
                continue
            # the asymptotic regime can begin below 0.1 (observed: a rectified unit with offset
            # 0.2 whose input only stops crossing zero below 0.09: gaps 3.7e-4, 2.3e-4, 2.4e-5,
            # 2.1e-6, 2.3e-7 at 0.1, 0.03, 0.01, 0.003, 0.001 - a clean factor 9 to 11 per half
            # decade from 0.03 on). So the half decade above e is a reference too, with the square
            # root of the property's slack: gap(e) <= sqrt(100/30) gap(3e) / 9 (a linearly
            # decaying gap has 1/3 there and still fails).
            larger = [e for e in gaps if e > e2 * 2.5]
            if not larger:
                continue
            slack = lambda e: (100.0 / 30.0) if e > e2 * 5 else math.sqrt(100.0 / 30.0)
            bound = np.max(np.stack([np.max(np.maximum(gaps[e], 0.0)) * (e2 / e) ** 2
                                     * slack(e) for e in larger])) * np.ones_like(gaps[e2])
            d = dict(info, N=N, eps=e2, gap=gaps[e2],
                     gaps_at_larger_scales={str(e): gaps[e] for e in larger})
            rec.leq(f"gap({e2}) decays quadratically", gaps[e2], bound, allow=2e-7, detail=d,
                    mech=f"gap-not-quadratic:{ak}:{regime}")
        if rep == 0 and gaps:
            rec.sample({"case": info, "N": N, "gaps_by_weight_scale": {str(k): v for k, v in
                                                                         gaps.items()}})
