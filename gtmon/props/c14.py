"""C14 - expected log-factor and expected log-conditional integrals are exact."""
import numpy as np

from .. import build, core, gen
from .. import oracles as orc
from ..gen import J, JI
from . import lincommon as lc

PROP = "C14"
HOSTILE = ('scale', 'special')
MONITORS = ("WF", "FORM")
ANCHORS = [("factor.py", "ConjugateFactor._integrate_log_factor"),
           ("measure.py", "GaussianMeasure.integrate_log_factor"),
           ("conditional.py", "ConditionalGaussianPDF.integrate_log_conditional"),
           ("conditional.py", "ConditionalGaussianPDF.integrate_log_conditional_y"),
           ("conditional.py", "NNControlGaussianConditional.integrate_log_conditional"),
           ("conditional.py", "NNControlGaussianConditional.integrate_log_conditional_y"),
           ("conditional.py", "ConditionalIdentityGaussianPDF.integrate_log_conditional"),
           ("conditional.py", "ConditionalIdentityGaussianPDF.integrate_log_conditional_y"),
           ("conditional.py", "ConditionalIdentityDiagGaussianPDF.integrate_log_conditional"),
           ("conditional.py", "ConditionalIdentityDiagGaussianPDF.integrate_log_conditional_y"),
           ("approximate_conditional.py", "LRBFGaussianConditional.integrate_log_conditional"),
           ("approximate_conditional.py", "LRBFGaussianConditional.integrate_log_conditional_y"),
           ("approximate_conditional.py", "LSEMGaussianConditional.integrate_log_conditional"),
           ("approximate_conditional.py", "LSEMGaussianConditional.integrate_log_conditional_y")]
RULE = ("cells: (a) integrate('log u(x)', factor) for measure kind x factor kind x factor batch in "
        "{1, R} x R x D against mass x E[-1/2 x'Lx + nu'x + ln beta] from the generator's parameters; "
        "(b) linear conditional classes x (Dx,Dy) x batch: integrate_log_conditional under an arbitrary "
        "Gaussian q over (y,x) with random cross-covariance against the closed form of the residual "
        "law, integrate_log_conditional_y as callable and evaluated on N values of y; (c) RBF and "
        "squared-exponential feature models (Dx<=2, Dk in 1..3): both integrals against converged "
        "Gauss-Hermite quadrature over x of the closed-form inner expectation over y|x with mu(x) read "
        "from the object; non-trivial: D>1 or R>1 or Dk>1; distinct = cell tuple")


def cells(tier, seed):
    out = []
    Ds = (1, 2, 3) if tier == "quick" else (1, 2, 3, 4, 5)
    Rs = (1, 3) if tier == "quick" else (1, 2, 4)
    reps = 2 if tier == "quick" else 8
    for mk in build.MEASURE_KINDS:
        for R in Rs:
            for D in Ds:
                out.append({"part": "logfactor", "mk": mk, "R": R, "D": D, "reps": reps,
                            "group": ["f", R, D], "cost": 1.0})
    dims = [(1, 1), (2, 1), (1, 2), (2, 2), (3, 2)] if tier == "quick" else \
        [(1, 1), (2, 1), (1, 2), (2, 2), (3, 2), (2, 3), (4, 2), (3, 3), (1, 4)]
    for ck in build.COND_KINDS:
        for (Dx, Dy) in dims:
            if ck.startswith("identity") and Dx != Dy:
                continue
            for Rq in (1, 3):
                out.append({"part": "linear", "ck": ck, "Dx": Dx, "Dy": Dy, "Rq": Rq, "reps": reps,
                            "group": ["l", Dx, Dy, Rq], "cost": 1.0})
    fd = [(1, 1, 1), (1, 2, 2), (2, 1, 2), (2, 2, 3), (1, 2, 4)] if tier == "quick" else \
        [(1, 1, 1), (1, 2, 2), (2, 1, 2), (2, 2, 3), (1, 3, 3), (2, 3, 1), (1, 1, 3), (2, 2, 2),
         (1, 2, 4), (2, 2, 5), (1, 1, 6)]
    for ak in ("lrbf", "lsem"):
        for (Dx, Dy, Dk) in fd:
            for Rq in (1, 2):
                out.append({"part": "feature", "ak": ak, "Dx": Dx, "Dy": Dy, "Dk": Dk, "Rq": Rq,
                            "reps": reps, "group": ["a", ak, Dx, Dy, Dk, Rq], "cost": 4.0})
    return out


def run_logfactor(cell, rec, seed):
    mk, R, D = cell["mk"], cell["R"], cell["D"]
    for rep in range(cell["reps"]):
        for fk in build.FACTOR_KINDS:
            for Rf in ((1, R) if R > 1 else (1,)):
                rng = gen.rng_for(seed, "C14f", mk, R, D, fk, Rf, rep)
                kappa = float(rng.choice(gen.KAPPAS))
                u, tu = build.mk_measure(mk, rng, R, D, kappa=kappa)
                f, tf = build.mk_factor(fk, rng, Rf, D, kappa=float(rng.choice(gen.KAPPAS)))
                info = {"part": "logfactor", "mk": mk, "fk": fk, "R": R, "R_f": Rf, "D": D,
                        "kappa": kappa}
                rec.cell(["logfactor", mk, fk, R, Rf, D], R > 1 or D > 1)
                lm = orc.gauss_lnZ(tu.Lambda, tu.nu) + tu.ln_beta
                mass = np.exp(lm)
                Lf = np.broadcast_to(tf.Lambda, (R, D, D))
                nf = np.broadcast_to(tf.nu, (R, D))
                bf = np.broadcast_to(tf.ln_beta, (R,))
                Exx = tu.Sigma + tu.mu[:, :, None] * tu.mu[:, None, :]
                val = -0.5 * np.einsum("rab,rab->r", Lf, Exx) + np.sum(nf * tu.mu, -1) + bf
                absExx = np.abs(tu.Sigma) + np.abs(tu.mu)[:, :, None] * np.abs(tu.mu)[:, None, :]
                comp = 0.5 * np.einsum("rab,rab->r", np.abs(Lf), absExx) + np.sum(
                    np.abs(nf) * np.abs(tu.mu), -1) + np.abs(bf)
                got = lc.call(rec, "integrate(log u)",
                              lambda: u.integrate("log u(x)", factor=f), info)
                if not np.all(np.abs(lm) < 600.0):
                    # the total mass is not representable in float64 (hostile scales): the
                    # linear-domain integral has no finite value to compare
                    rec.count("mass_not_representable")
                    continue
                if got is not None:
                    rec.close("expected log factor", got, mass * val,
                              ns=mass * (1.0 + comp) * (1.0 + np.abs(lm)) + 1e-280, detail=info,
                              mech=f"log-factor:{fk}")
                if rep == 0 and fk == "general" and Rf == 1:
                    rec.sample({"case": info, "value": mass * val})


def resid_law(mu_q, S_q, M, b, Dy):
    """law of r = y - M x - b under q over (y, x): mean m [R,Dy], covariance C [R,Dy,Dy]."""
    R = mu_q.shape[0]
    Dx = M.shape[-1]
    T = np.concatenate([np.broadcast_to(np.eye(Dy), (R, Dy, Dy)), -np.broadcast_to(M, (R, Dy, Dx))],
                       axis=2)
    m = np.einsum("rab,rb->ra", T, mu_q) - b
    C = np.einsum("rab,rbc,rdc->rad", T, S_q, T)
    return m, C, T


def run_linear(cell, rec, seed):
    ck, Dx, Dy, Rq = cell["ck"], cell["Dx"], cell["Dy"], cell["Rq"]
    L = build.lib()
    for rep in range(cell["reps"]):
        rng = gen.rng_for(seed, "C14l", ck, Dx, Dy, Rq, rep)
        kappa = float(rng.choice(gen.KAPPAS))
        info = {"part": "linear", "ck": ck, "Dx": Dx, "Dy": Dy, "Rq": Rq, "kappa": kappa}
        variants = [("R=1", 1)]
        if ck in ("full", "diag") and Rq > 1:
            variants.append(("R=Rq", Rq))
        for vname, Rc in variants:
            c, tc, kw = build.mk_conditional(ck, rng, Rc, Dy, Dx, kappa=kappa)
            q, tq = build.mk_pdf(rng, Rq, Dy + Dx, kappa=float(rng.choice(gen.KAPPAS)))
            rec.cell(["linear", ck, Dx, Dy, Rq, vname], True)
            Mb = np.broadcast_to(tc.M, (Rq, Dy, Dx))
            bb = np.broadcast_to(tc.b, (Rq, Dy))
            Sb = np.broadcast_to(tc.Sigma, (Rq, Dy, Dy))
            Lam = orc.inv(Sb)
            m, C, T = resid_law(tq.mu, tq.Sigma, Mb, bb, Dy)
            ref = -0.5 * (np.einsum("rab,rab->r", Lam, C) + np.einsum("ra,rab,rb->r", m, Lam, m)
                          + Dy * orc.LN2PI + orc.slogdet(Sb))
            absm = np.einsum("rab,rb->ra", np.abs(T), np.abs(tq.mu)) + np.abs(bb)
            absC = np.einsum("rab,rbc,rdc->rad", np.abs(T), np.abs(tq.Sigma), np.abs(T))
            ns = 1.0 + 0.5 * (np.einsum("rab,rab->r", np.abs(Lam), absC) + np.einsum(
                "ra,rab,rb->r", absm, np.abs(Lam), absm) + Dy * orc.LN2PI + np.abs(orc.slogdet(Sb)))
            got = lc.call(rec, "integrate_log_conditional",
                          lambda: c.integrate_log_conditional(q, **kw), dict(info, variant=vname))
            if got is not None:
                rec.close("E_q ln p(y|x)", got, ref, ns=ns, detail=dict(info, variant=vname),
                          mech=f"log-conditional:{ck}:{vname}")
        # integrate_log_conditional_y: function of y, R=1 conditional
        c, tc, kw = build.mk_conditional(ck, rng, 1, Dy, Dx, kappa=kappa)
        for Rp, N in ((1, 4), (3, 3)):
            p, tp = build.mk_pdf(rng, Rp, Dx, kappa=float(rng.choice(gen.KAPPAS)))
            y = gen.vec(rng, N, Dy, scale=1.5)
            Lam = orc.inv(tc.Sigma)[0]
            M, b = tc.M[0], tc.b[0]
            mu_y = tp.mu @ M.T + b  # Rp, Dy
            d = y - np.broadcast_to(mu_y, (N, Dy))
            tr = np.einsum("ab,rab->r", Lam, np.einsum("ab,rbc,dc->rad", M, tp.Sigma, M))
            ref = -0.5 * (np.einsum("na,ab,nb->n", d, Lam, d) + np.broadcast_to(tr, (N,))
                          + Dy * orc.LN2PI + orc.slogdet(tc.Sigma)[0])
            ad = np.abs(y) + np.broadcast_to(np.abs(tp.mu) @ np.abs(M).T + np.abs(b), (N, Dy))
            ns = 1.0 + 0.5 * (np.einsum("na,ab,nb->n", ad, np.abs(Lam), ad) + np.abs(
                np.broadcast_to(tr, (N,))) + Dy * orc.LN2PI + np.abs(orc.slogdet(tc.Sigma)[0]))
            inf = dict(info, R_prior=Rp, N=N)
            rec.cell(["linear_y", ck, Dx, Dy, Rp, N], True)
            got = lc.call(rec, "integrate_log_conditional_y(y)",
                          lambda: c.integrate_log_conditional_y(p, y=J(y), **kw), inf)
            if got is not None:
                rec.close("E_p(x) ln p(y|x) evaluated", got, ref, ns=ns, detail=inf,
                          mech=f"log-conditional-y:{ck}")
            fn = lc.call(rec, "integrate_log_conditional_y()",
                         lambda: c.integrate_log_conditional_y(p, **kw), inf)
            if fn is not None:
                rec.true("callable returned when y is omitted", callable(fn), detail=inf,
                         mech=f"log-conditional-y-not-callable:{ck}")
                if callable(fn):
                    # the returned function belongs to the p(x) it was made for: evaluated only
                    # after another function was made from the same conditional with another p(x)
                    with gen.calm():
                        p_other, _ = build.mk_pdf(rng, Rp, Dx, kappa=10.0)
                    lc.call(rec, "integrate_log_conditional_y()",
                            lambda: c.integrate_log_conditional_y(p_other, **kw), inf)
                    got2 = lc.call(rec, "callable(y)", lambda: fn(J(y)), inf)
                    if got2 is not None:
                        rec.close("E_p(x) ln p(y|x) callable", got2, ref, ns=ns, detail=inf,
                                  mech=f"log-conditional-y-callable:{ck}")
        if rep == 0:
            rec.sample({"case": info, "E_q ln p(y|x)": ref})


def run_feature(cell, rec, seed):
    ak, Dx, Dy, Dk, Rq = (cell[k] for k in ("ak", "Dx", "Dy", "Dk", "Rq"))
    orders = (80, 120) if Dx == 1 else (40, 56)
    for rep in range(cell["reps"]):
        rng = gen.rng_for(seed, "C14a", ak, Dx, Dy, Dk, Rq, rep)
        c, tc = build.mk_approx(ak, rng, Dy, Dx, Dk, kappa=10.0)
        q, tq = build.mk_pdf(rng, Rq, Dy + Dx, kappa=10.0)
        info = {"part": "feature", "ak": ak, "Dx": Dx, "Dy": Dy, "Dk": Dk, "Rq": Rq}
        rec.cell(["feature", ak, Dx, Dy, Dk, Rq], True)
        Lam = orc.inv(tc.Sigma)[0]
        ldS = orc.slogdet(tc.Sigma)[0]
        iy, ix = np.arange(Dy), np.arange(Dy, Dy + Dx)

        def mu_of(X):
            return np.asarray(c.get_conditional_mu(J(X))).reshape(-1, Dy)  # as the object defines it

        refs, nss, oks = [], [], []
        for r in range(Rq):
            mx, Sx = tq.mu[r][ix], tq.Sigma[r][np.ix_(ix, ix)]

            def inner(X, r=r):
                my, Cy = orc.condition(tq.mu[r], tq.Sigma[r], iy, ix, X)
                d = my - mu_of(X)
                return -0.5 * (np.einsum("na,ab,nb->n", d, Lam, d) + np.sum(Lam * Cy)
                               + Dy * orc.LN2PI + ldS)

            def inner_abs(X, r=r):
                my, Cy = orc.condition(tq.mu[r], tq.Sigma[r], iy, ix, X)
                d = np.abs(my) + np.abs(mu_of(X))
                return 0.5 * (np.einsum("na,ab,nb->n", d, np.abs(Lam), d) + np.sum(
                    np.abs(Lam) * np.abs(Cy)) + Dy * orc.LN2PI + abs(ldS))

            v, ok = orc.gh_expect(inner, mx, Sx, orders=orders, rel=1e-11)
            a, _ = orc.gh_expect(inner_abs, mx, Sx, orders=orders)
            refs.append(v)
            nss.append(1.0 + a)
            oks.append(ok)
        if all(oks):
            rec.count("feature_judged")
            got = lc.call(rec, "integrate_log_conditional",
                          lambda: c.integrate_log_conditional(q), info)
            if got is not None:
                rec.close("E_q ln p(y|x) (feature model)", got, np.array(refs), ns=np.array(nss),
                          detail=info, mech=f"log-conditional:{ak}")
        else:
            rec.count("oracle_unconverged")
        # integrate_log_conditional_y: one prior component, N values of y
        p, tp = build.mk_pdf(rng, 1, Dx, kappa=10.0)
        N = 3
        y = gen.vec(rng, N, Dy, scale=1.5)

        def inner_y(X):
            d = y[None, :, :] - mu_of(X)[:, None, :]  # n N Dy
            return -0.5 * (np.einsum("nka,ab,nkb->nk", d, Lam, d) + Dy * orc.LN2PI + ldS)

        def inner_y_abs(X):
            d = np.abs(y)[None, :, :] + np.abs(mu_of(X))[:, None, :]
            return 0.5 * (np.einsum("nka,ab,nkb->nk", d, np.abs(Lam), d) + Dy * orc.LN2PI + abs(ldS))

        v, ok = orc.gh_expect(inner_y, tp.mu[0], tp.Sigma[0], orders=orders, rel=1e-11)
        a, _ = orc.gh_expect(inner_y_abs, tp.mu[0], tp.Sigma[0], orders=orders)
        if ok:
            got = lc.call(rec, "integrate_log_conditional_y(y)",
                          lambda: c.integrate_log_conditional_y(p, y=J(y)), info)
            if got is not None:
                rec.close("E_p(x) ln p(y|x) evaluated (feature model)", got, v, ns=1.0 + a,
                          detail=info, mech=f"log-conditional-y:{ak}")
            fn = lc.call(rec, "integrate_log_conditional_y()",
                         lambda: c.integrate_log_conditional_y(p), info)
            if fn is not None and callable(fn):
                got2 = lc.call(rec, "callable(y)", lambda: fn(J(y)), info)
                if got2 is not None:
                    rec.close("E_p(x) ln p(y|x) callable (feature model)", got2, v, ns=1.0 + a,
                              detail=info, mech=f"log-conditional-y-callable:{ak}")
        else:
            rec.count("oracle_unconverged")
        if rep == 0:
            rec.sample({"case": info, "quadrature_value": np.array(refs), "converged": oks})


def run_cell(cell, rec, seed):
    if cell["part"] == "feature":
        with gen.calm():  # kernels have an intrinsic O(1) length scale
            return run_feature(cell, rec, seed)
    {"logfactor": run_logfactor, "linear": run_linear, "feature": run_feature}[cell["part"]](
        cell, rec, seed)
