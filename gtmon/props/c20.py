"""C20 - truncated one-dimensional Gaussian measures integrate correctly."""
import math

import numpy as np

from .. import build, core, gen
from .. import oracles as orc
from ..gen import J, JI
from . import lincommon as lc

PROP = "C20"
MONITORS = ("WF", "FORM")
HOSTILE = ('special',)
ANCHORS = [("experimental/truncated_measure.py", "TruncatedGaussianMeasure.__call__"),
           ("experimental/truncated_measure.py", "TruncatedGaussianMeasure._expectation_integral"),
           ("experimental/truncated_measure.py", "TruncatedGaussianMeasure._expectation_x"),
           ("experimental/truncated_measure.py", "TruncatedGaussianMeasure._get_variance"),
           ("experimental/truncated_measure.py", "TruncatedGaussianMeasure._get_moment"),
           ("experimental/truncated_measure.py", "TruncatedGaussianMeasure.integrate_x_pow_k"),
           ("experimental/truncated_measure.py", "TruncatedGaussianMeasure.get_density"),
           ("experimental/truncated_measure.py", "TruncatedGaussianPDF.__post_init__"),
           ("experimental/truncated_measure.py", "TruncatedGaussianPDF.__call__"),
           ("experimental/misc.py", "normal_cdf")]
RULE = ("cell = (base kind in {measure, density}, R in 1..4 with per-component limits, interval regime "
        "in {two-sided, lower only, upper only, far tail 6-9 sigma, asymmetric}); oracle: mpmath "
        "quadrature (40 digits) of x^k u(x) on [a,b]; checks: __call__ inside / outside / at the "
        "limits, integrate of 1, x, x**2, x**k for k = 0..6, additivity at random cut points, the "
        "normalised variant from get_density() and built directly on the un-normalised measure "
        "(value, mass one, mean, variance); tolerance 1e-8 x untruncated integral of |x|^k u; "
        "non-trivial: all; distinct = cell tuple")

REGIMES = ("two-sided", "lower", "upper", "far-tail", "asymmetric", "moderate-tail",
           "symmetric-exact")


def cells(tier, seed):
    out = []
    Rs = (1, 3) if tier == "quick" else (1, 2, 4)
    reps = 1 if tier == "quick" else 8
    for mk in ("measure", "pdf"):
        for R in Rs:
            for reg in REGIMES:
                # the tail regime spans 4.5 .. 9 sigma: several draws so that every decade of the
                # truncated mass (1e-6 .. 1e-19) is visited
                out.append({"mk": mk, "R": R, "regime": reg,
                            "reps": reps * (3 if reg in ("far-tail", "moderate-tail") else 1),
                            "group": [mk, R, reg],
                            "cost": 1.0})
    return out


def mp_moments(lam, nu, lb, a, b, kmax=6):
    """[int_a^b x^k u(x) dx for k=0..kmax], and the untruncated int |x|^k u."""
    import mpmath as mp

    mp.mp.dps = 40
    lam, nu, lb = mp.mpf(float(lam)), mp.mpf(float(nu)), mp.mpf(float(lb))
    mu = nu / lam
    sd = 1 / mp.sqrt(lam)
    u = lambda x: mp.exp(-lam * x * x / 2 + nu * x + lb)
    A = mp.mpf("-inf") if not np.isfinite(a) else mp.mpf(float(a))
    B = mp.mpf("inf") if not np.isfinite(b) else mp.mpf(float(b))
    # break points: limits, mode, and a few sd around the mode that fall inside
    pts = [A]
    for c in (mu - 6 * sd, mu - 2 * sd, mu, mu + 2 * sd, mu + 6 * sd, mp.mpf(0)):
        if A < c < B:
            pts.append(c)
    pts.append(B)
    pts = sorted(set(pts))
    full = [mp.mpf("-inf"), mu - 6 * sd, mu - 2 * sd, mu, mu + 2 * sd, mu + 6 * sd, mp.mpf("inf")]
    if mu - 6 * sd < 0 < mu + 6 * sd:
        full = sorted(set(full + [mp.mpf(0)]))
    vals, scales = [], []
    for k in range(kmax + 1):
        vals.append(float(mp.quad(lambda x: x ** k * u(x), pts)))
        scales.append(float(mp.quad(lambda x: abs(x) ** k * u(x), full)))
    return np.array(vals), np.array(scales)


def limits(rng, reg, mu, sd):
    R = mu.shape[0]
    if reg == "two-sided":
        lo = mu - rng.uniform(0.2, 2.5, R) * sd
        hi = mu + rng.uniform(0.2, 2.5, R) * sd
    elif reg == "lower":
        lo = mu + rng.uniform(-2.0, 2.0, R) * sd
        hi = np.full(R, np.inf)
    elif reg == "upper":
        lo = np.full(R, -np.inf)
        hi = mu + rng.uniform(-2.0, 2.0, R) * sd
    elif reg == "far-tail":
        s = rng.choice([-1.0, 1.0], R)
        inner = mu + s * rng.uniform(4.5, 9.0, R) * sd
        outer = inner + s * rng.uniform(0.5, 3.0, R) * sd
        lo, hi = np.minimum(inner, outer), np.maximum(inner, outer)
        one = rng.integers(0, 2, R).astype(bool)
        hi = np.where(one & (s > 0), np.inf, hi)
        lo = np.where(one & (s < 0), -np.inf, lo)
    elif reg == "moderate-tail":
        # one limit 2.5 .. 4.5 sd away from the mean on either side (where cdf implementations
        # switch between formulas), the other one infinite or inside
        s = rng.choice([-1.0, 1.0], R)
        c = mu + s * rng.uniform(2.5, 4.5, R) * sd
        kind = rng.integers(0, 3, R)
        lo = np.where(kind == 0, c, np.where(kind == 1, -np.inf, np.minimum(c, mu)))
        hi = np.where(kind == 0, np.inf, np.where(kind == 1, c, np.maximum(c, mu)))
    else:  # asymmetric about the mode, both inside
        lo = mu - rng.uniform(0.05, 0.5, R) * sd
        hi = mu + rng.uniform(1.5, 4.0, R) * sd
    return lo[:, None], hi[:, None]


def mk_dyadic(mk, rng, R):
    """parameters that are exact in binary (precision 4^j, mean a multiple of 1/2) so that limits
    mean +- k sd are *exactly* symmetric in standardised coordinates (alpha == -beta bit for bit)."""
    L = build.lib()
    lam = 4.0 ** rng.integers(-1, 3, R)
    mu = rng.integers(-4, 5, R) * 0.5
    k = rng.choice([0.5, 1.0, 1.5, 2.0, 3.0], R)
    sd = 1.0 / np.sqrt(lam)
    lo, hi = (mu - k * sd)[:, None], (mu + k * sd)[:, None]
    Lam, nu = lam[:, None, None], (lam * mu)[:, None]
    if mk == "pdf":
        u = L.pdf.GaussianPDF(Sigma=J(1.0 / Lam), mu=J(mu[:, None]))
        lb = -orc.gauss_lnZ(Lam, nu)
    else:
        lb = rng.integers(-3, 4, R) * 0.5
        u = L.measure.GaussianMeasure(Lambda=J(Lam), nu=J(nu), ln_beta=J(lb))
    t = build.Truth(Lambda=Lam, nu=nu, ln_beta=lb, mu=mu[:, None], Sigma=1.0 / Lam)
    return u, t, lo, hi


def run_cell(cell, rec, seed):
    from gaussian_toolbox.experimental import truncated_measure as tm

    mk, R, reg = cell["mk"], cell["R"], cell["regime"]
    L = build.lib()
    for rep in range(cell["reps"]):
        rng = gen.rng_for(seed, "C20", mk, R, reg, rep)
        if reg == "symmetric-exact":
            u, t, lo, hi = mk_dyadic(mk, rng, R)
            mu, sd = t.mu[:, 0], np.sqrt(t.Sigma[:, 0, 0])
        else:
            u, t = build.mk_measure(mk, rng, R, 1, kappa=1.0)
            mu, sd = t.mu[:, 0], np.sqrt(t.Sigma[:, 0, 0])
            lo, hi = limits(rng, reg, mu, sd)
        info = {"mk": mk, "R": R, "regime": reg, "lower": lo[:, 0], "upper": hi[:, 0]}
        rec.cell([mk, R, reg], True)
        kw = {}
        if np.all(np.isfinite(lo)) or reg != "upper":
            kw["lower_limit"] = J(lo)
        if np.all(np.isfinite(hi)) or reg != "lower":
            kw["upper_limit"] = J(hi)
        if reg == "lower":
            kw.pop("upper_limit", None)
        if reg == "upper":
            kw.pop("lower_limit", None)
        T = lc.call(rec, "TruncatedGaussianMeasure", lambda: tm.TruncatedGaussianMeasure(
            measure=u, **kw), info)
        if T is None:
            continue
        ref, sc = [], []
        for r in range(R):
            v, s = mp_moments(t.Lambda[r, 0, 0], t.nu[r, 0], t.ln_beta[r], lo[r, 0], hi[r, 0])
            ref.append(v)
            sc.append(s)
        ref, sc = np.array(ref), np.array(sc)  # R x 7
        # ---- evaluation: u inside, 0 outside, limits included
        xs = []
        for r in range(R):
            a = lo[r, 0] if np.isfinite(lo[r, 0]) else mu[r] - 3 * sd[r]
            b = hi[r, 0] if np.isfinite(hi[r, 0]) else mu[r] + 3 * sd[r]
            xs += [a, b, 0.5 * (a + b), a - 0.1 * sd[r], b + 0.1 * sd[r]]
        xs = np.array(xs)[:, None]
        lu = orc.factor_ln(t.Lambda, t.nu, t.ln_beta, xs)
        inside = (xs[None, :, 0] >= lo) & (xs[None, :, 0] <= hi)
        exp_val = np.where(inside, np.exp(lu), 0.0)
        got = lc.call(rec, "__call__", lambda: T(J(xs)), info)
        if got is not None:
            rec.close("u(x) inside, 0 outside", got, exp_val, ns=np.exp(lu) * orc.factor_ln_abs(
                t.Lambda, t.nu, t.ln_beta, xs) + 1e-280, detail=info, mech="call-value")
        # ---- element-wise evaluation: component r at its own point, a mixed batch of points
        # inside and outside their intervals
        a_f = np.where(np.isfinite(lo[:, 0]), lo[:, 0], mu - 3 * sd)
        b_f = np.where(np.isfinite(hi[:, 0]), hi[:, 0], mu + 3 * sd)
        pick = rng.integers(0, 3, R)
        xe = np.where(pick == 0, 0.5 * (a_f + b_f), np.where(pick == 1, a_f - 0.2 * sd,
                                                              b_f + 0.2 * sd))[:, None]
        lue = np.diag(orc.factor_ln(t.Lambda, t.nu, t.ln_beta, xe))
        ins_e = (xe[:, 0] >= lo[:, 0]) & (xe[:, 0] <= hi[:, 0])
        ge = lc.call(rec, "__call__[element_wise]", lambda: T(J(xe), element_wise=True), info)
        if ge is not None:
            rec.close("element-wise: u(x_r) inside, 0 outside", ge, np.where(ins_e, np.exp(lue), 0.0),
                      ns=np.exp(lue) * np.diag(orc.factor_ln_abs(t.Lambda, t.nu, t.ln_beta, xe))
                      + 1e-280, detail=dict(info, inside=ins_e), mech="call-value-element-wise")
        # ---- integrals
        for key, k in (("1", 0), ("x", 1), ("x**2", 2)):
            g = lc.call(rec, f"integrate({key})", lambda: T.integrate(key), info)
            if g is not None:
                rec.close(f"integrate {key}", np.asarray(g).reshape(R), ref[:, k], ns=sc[:, k],
                          detail=dict(info, k=k), mech=f"integral:{key}")
        for k in range(0, 7):
            g = lc.call(rec, f"integrate(x**k,k={k})", lambda: T.integrate("x**k", k=k), info)
            if g is not None:
                d = dict(info, k=k)
                if k == 0:
                    # signature of the known recursion-seed slip: mass * (1 + L1)
                    d["got"], d["mass"] = np.asarray(g).reshape(R), ref[:, 0]
                rec.close(f"integrate x**k, k={k}", np.asarray(g).reshape(R), ref[:, k],
                          ns=sc[:, k], detail=d, mech=f"integral:x**k:k={k}")
        # ---- additivity at a random cut point inside the interval
        a_ = np.where(np.isfinite(lo[:, 0]), lo[:, 0], mu - 4 * sd)
        b_ = np.where(np.isfinite(hi[:, 0]), hi[:, 0], mu + 4 * sd)
        cut = (a_ + rng.uniform(0.2, 0.8, R) * (b_ - a_))[:, None]
        T1 = tm.TruncatedGaussianMeasure(measure=u, lower_limit=J(lo), upper_limit=J(cut))
        T2 = tm.TruncatedGaussianMeasure(measure=u, lower_limit=J(cut), upper_limit=J(hi))
        for key, k, kwk in (("1", 0, {}), ("x", 1, {}), ("x**2", 2, {}), ("x**k", 3, {"k": 3}),
                            ("x**k", 5, {"k": 5})):
            s = np.asarray(T1.integrate(key, **kwk)).reshape(R) + np.asarray(
                T2.integrate(key, **kwk)).reshape(R)
            rec.close(f"adjacent intervals add up ({key}, k={k})", s, ref[:, k], ns=sc[:, k],
                      detail=dict(info, cut=cut[:, 0]), mech=f"additivity:k={k}")
        # ---- normalised variants
        Z = ref[:, 0]
        xin = np.array([0.5 * (a_[r] + b_[r]) for r in range(R)])[:, None]
        lu_in = orc.factor_ln(t.Lambda, t.nu, t.ln_beta, xin)  # R x R
        mean_ref = ref[:, 1] / Z
        var_ref = ref[:, 2] / Z - mean_ref ** 2
        var_scale = sc[:, 2] / Z + (sc[:, 1] / Z) ** 2
        tiny = Z < 1e-12 * sc[:, 0]   # far tail: the library's cdf difference cancels
        variants = [("get_density", lambda: T.get_density()),
                    ("direct", lambda: tm.TruncatedGaussianPDF(measure=u, **kw))]
        for name, mkf in variants:
            P = lc.call(rec, f"TruncatedGaussianPDF[{name}]", mkf, info)
            if P is None:
                continue
            d = dict(info, variant=name, base_mass=np.exp(orc.gauss_lnZ(t.Lambda, t.nu) + t.ln_beta))
            if np.all(~tiny):
                gv = lc.call(rec, "__call__", lambda: P(J(xin)), d)
                if gv is not None:
                    ins = (xin[None, :, 0] >= lo) & (xin[None, :, 0] <= hi)
                    expv = np.where(ins, np.exp(lu_in) / Z[:, None], 0.0)
                    d2 = dict(d, ratio_got_over_expected=np.diag(np.asarray(gv)) / np.diag(expv))
                    rec.close("normalised density value = u / truncated mass", gv, expv,
                              ns=np.exp(lu_in) / Z[:, None] * (orc.factor_ln_abs(
                                  t.Lambda, t.nu, t.ln_beta, xin) + (sc[:, 0] / Z)[:, None]),
                              detail=d2,
                              mech=f"normalised-value:{name}:{mk}")
                gve = lc.call(rec, "__call__[element_wise]",
                              lambda: P(J(xe), element_wise=True), d)
                if gve is not None:
                    rec.close("normalised density, element-wise", gve,
                              np.where(ins_e, np.exp(lue) / Z, 0.0),
                              ns=np.exp(lue) / Z * (np.diag(orc.factor_ln_abs(
                                  t.Lambda, t.nu, t.ln_beta, xe)) + sc[:, 0] / Z) + 1e-280,
                              detail=d, mech=f"normalised-value-element-wise:{name}")
                one = lc.call(rec, "integrate(1)", lambda: P.integrate("1"), d)
                if one is not None:
                    rec.close("normalised density: mass one", np.asarray(one).reshape(R),
                              np.ones(R), ns=sc[:, 0] / Z, detail=d,
                              mech=f"normalised-mass:{name}:{mk}")
                m = lc.call(rec, "get_mean", lambda: P.get_mean(), d)
                if m is not None:
                    rec.close("truncated mean", np.asarray(m).reshape(R), mean_ref,
                              ns=sc[:, 1] / Z + 1e-300, detail=d, mech=f"normalised-mean:{name}")
                v = lc.call(rec, "get_variance", lambda: P.get_variance(), d)
                if v is not None:
                    rec.close("truncated variance", np.asarray(v).reshape(R), var_ref,
                              ns=var_scale, detail=d, mech=f"normalised-variance:{name}")
                # the standard deviation read-out: judged where the variance is resolved (a
                # variance at rounding level of its own cancellation may come out negative)
                if np.all(1e-6 * np.asarray(var_scale) < np.asarray(var_ref)):
                    sdev = lc.call(rec, "get_std", lambda: P.get_std(), d)
                    if sdev is not None:
                        rec.close("truncated std", np.asarray(sdev).reshape(R), np.sqrt(var_ref),
                                  ns=np.asarray(var_scale) / (2.0 * np.sqrt(var_ref)), detail=d,
                                  mech=f"normalised-std:{name}")
        # ---- the measure the normalised variants were built on is still the same function: a
        # truncated measure built on it *now*, and the one built before, still give u on [a,b]
        T2 = lc.call(rec, "TruncatedGaussianMeasure", lambda: tm.TruncatedGaussianMeasure(
            measure=u, **kw), info)
        if T2 is not None:
            g = lc.call(rec, "integrate(1)", lambda: T2.integrate("1"), info)
            if g is not None:
                rec.close("mass of a truncated measure built after the normalised variants",
                          np.asarray(g).reshape(R), ref[:, 0], ns=sc[:, 0], detail=info,
                          mech="measure-changed-by-normalised-variant:integral")
            for nm, TT in (("built after", T2), ("built before", T)):
                got = lc.call(rec, "__call__", lambda: TT(J(xs)), info)
                if got is not None:
                    rec.close(f"u(x) inside, 0 outside ({nm} the normalised variants)", got,
                              exp_val, ns=np.exp(lu) * orc.factor_ln_abs(
                                  t.Lambda, t.nu, t.ln_beta, xs) + 1e-280, detail=info,
                              mech="measure-changed-by-normalised-variant:value")
        if rep == 0:
            rec.sample({"case": info, "mpmath_integrals_k0..6": ref})


def classify(mech, d):
    if mech == "integral:x**k:k=0" and "got" in d:
        return "integral:x**k:k=0:not-the-mass"
    return mech
