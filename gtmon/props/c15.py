"""C15 - specialised representations agree with the general one."""
import numpy as np

from .. import build, core, gen
from .. import oracles as orc
from ..gen import J, JI
from .c12 import params_of, _cmp

PROP = "C15"
MONITORS = ("WF", "FORM")
HOSTILE = ('special',)
ANCHORS = [("utils/linalg.py", "invert_diagonal"), ("measure.py", "GaussianDiagMeasure.invert_lambda"),
           ("pdf.py", "GaussianDiagPDF.__post_init__"),
           ("conditional.py", "ConditionalGaussianDiagPDF.__post_init__"),
           ("conditional.py", "ConditionalIdentityDiagGaussianPDF.__post_init__"),
           ("factor.py", "OneRankFactor._multiply_with_measure"),
           ("factor.py", "LinearFactor._multiply_with_measure"),
           ("factor.py", "ConstantFactor._multiply_with_measure"),
           ("conditional.py", "ConditionalIdentityGaussianPDF.affine_joint_transformation"),
           ("conditional.py", "ConditionalIdentityGaussianPDF.affine_marginal_transformation"),
           ("conditional.py", "ConditionalIdentityGaussianPDF.affine_conditional_transformation"),
           ("conditional.py", "ConditionalIdentityGaussianPDF.set_y"),
           ("conditional.py", "ConditionalIdentityDiagGaussianPDF.set_y"),
           ("conditional.py", "NNControlGaussianConditional.get_M_b")]
RULE = ("differential monitor: the same call on the specialised object and on the general object built "
        "from the same parameters (diag measure/density vs full; rank-one/linear/constant factor vs "
        "ConjugateFactor(Lambda,nu,ln_beta); diagonal / identity / identity-diagonal / NN-controlled "
        "conditional vs ConditionalGaussianPDF with the same M, b, Sigma), every method the "
        "specialised class supports, all batch layouts it accepts; results compared entry-wise (arrays) "
        "and as parameter sets (objects); both sides raising the same exception type counts as "
        "agreement; cell = (pair, operation, R, D, layout); non-trivial: R>1 or D>1")


def cells(tier, seed):
    out = []
    Rs = (1, 3) if tier == "quick" else (1, 2, 4)
    Ds = (1, 2, 4) if tier == "quick" else (1, 2, 3, 4, 5)
    reps = 1 if tier == "quick" else 4
    for pair in ("diag_measure", "diag_pdf", "rank1", "linear", "constant"):
        for R in Rs:
            for D in Ds:
                out.append({"pair": pair, "R": R, "D": D, "reps": reps, "group": [pair, R, D],
                            "cost": 2.0})
    dims = [(1, 1), (2, 1), (1, 2), (2, 2), (3, 2)] if tier == "quick" else \
        [(1, 1), (2, 1), (1, 2), (2, 2), (3, 2), (2, 3), (3, 3), (4, 2)]
    for pair in ("diag", "identity", "identity_diag", "nn"):
        for (Dx, Dy) in dims:
            if pair.startswith("identity") and Dx != Dy:
                continue
            for (Rc, Rx) in ((1, 1), (1, 3), (3, 1)):
                out.append({"pair": "cond:" + pair, "Dx": Dx, "Dy": Dy, "Rc": Rc, "Rx": Rx,
                            "reps": reps, "group": [pair, Dx, Dy, Rc, Rx], "cost": 2.0})
            # a precise observation of a vague state: prior covariance 1e10 x noise covariance,
            # each matrix well conditioned on its own
            if pair.startswith("identity"):
                out.append({"pair": "cond:" + pair, "Dx": Dx, "Dy": Dy, "Rc": 1, "Rx": 1,
                            "vague": 1e10, "reps": reps, "group": [pair, Dx, Dy, "vague"],
                            "cost": 1.0})
    return out


def both(rec, name, f_spec, f_gen, info, pair, common_only=False, relative=False):
    """run the same call on both sides and compare."""
    rec.cell([pair, name, info.get("R", info.get("Rc")), info.get("D", info.get("Dx")),
              info.get("Rx")], True)
    rs = rg = es = eg = None
    try:
        rs = f_spec()
    except Exception as e:
        es = e
    try:
        rg = f_gen()
    except Exception as e:
        eg = e
    inf = dict(info, op=name)
    if es is not None or eg is not None:
        rec.evaluations += 1
        if es is not None and eg is not None and type(es) is type(eg):
            rec.count("both_raise_same")
            return
        rec.fail(f"one-side-raises:{pair}:{name}",
                 dict(inf, specialised=core.exc_info(es) if es else "ok",
                      general=core.exc_info(eg) if eg else "ok"))
        return
    pa, pb = params_of(rs), params_of(rg)
    if common_only and isinstance(pa, dict) and isinstance(pb, dict):
        keys = set(pa) & set(pb)
        pa = {k: pa[k] for k in keys}
        pb = {k: pb[k] for k in keys}
    if relative:
        _cmp_rel(rec, f"{pair}.{name}", pa, pb, inf, f"differs:{pair}:{name}")
    else:
        _cmp(rec, f"{pair}.{name}", pa, pb, inf, f"differs:{pair}:{name}")


def _cmp_rel(rec, name, pa, pb, info, mech):
    """entry-wise agreement relative to the size of each array (no absolute '1 +'): used where the
    quantities compared are far from unit scale."""
    if isinstance(pa, list):
        for i, (x, y) in enumerate(zip(pa, pb)):
            _cmp_rel(rec, f"{name}[{i}]", x, y, info, mech)
        return
    if isinstance(pa, dict):
        for k in sorted(set(pa) & set(pb)):
            rec.close(f"{name}.{k}", pa[k], pb[k], ns=np.max(np.abs(pb[k])) + 1e-300,
                      detail=info, mech=mech)
        return
    rec.close(name, pa, pb, ns=np.max(np.abs(pb)) + 1e-300, detail=info, mech=mech)


def measure_ops(rec, rng, s, g, t, info, pair, is_pdf):
    R, D = info["R"], info["D"]
    x = J(gen.points(rng, 4, t.mu, t.Sigma))
    xe = J(gen.vec(rng, R, D))
    A = J(gen.vec(rng, 2, D)); a = J(gen.vec(rng, 2))
    B = J(gen.vec(rng, 3, D)); b = J(gen.vec(rng, 3))
    idx_neg = np.array([-1, 0, -R, -1]) if R > 1 else np.array([-1, 0, -1])
    ops = [
        ("evaluate_ln", lambda o: o.evaluate_ln(x)),
        ("evaluate_ln[element_wise]", lambda o: o.evaluate_ln(xe, element_wise=True)),
        ("__call__", lambda o: o(x)),
        ("log_integral", lambda o: o.log_integral()),
        ("log_integral_light", lambda o: o.log_integral_light()),
        ("integral", lambda o: o.integral()),
        ("get_density", lambda o: o.get_density()),
        ("slice", lambda o: o.slice(JI(rng0.integers(0, R, size=3)))),
        ("slice[negative, repeated]", lambda o: o.slice(JI(idx_neg))),
        ("slice[negative].integrate[x]", lambda o: o.slice(JI(idx_neg)).integrate("x")),
        ("product", lambda o: o.product()),
        ("product.log_integral", lambda o: o.product().log_integral()),
        ("integrate[x]", lambda o: o.integrate("x")),
        ("integrate[xx']", lambda o: o.integrate("xx'")),
        ("integrate[(Ax+a)]", lambda o: o.integrate("(Ax+a)", A_mat=A, a_vec=a)),
        ("integrate[(Ax+a)'(Bx+b)]", lambda o: o.integrate("(Ax+a)'(Bx+b)", A_mat=A, a_vec=a,
                                                          B_mat=A, b_vec=a)),
        ("integrate[(Ax+a)(Bx+b)']", lambda o: o.integrate("(Ax+a)(Bx+b)'", A_mat=A, a_vec=a,
                                                          B_mat=B, b_vec=b)),
        ("integrate[cubic_inner]", lambda o: o.integrate("(Ax+a)(Bx+b)'(Cx+c)", A_mat=A, a_vec=a,
                                                        B_mat=B, b_vec=b, C_mat=B, c_vec=b)),
        ("integrate[quartic_inner]", lambda o: o.integrate(
            "(Ax+a)'(Bx+b)(Cx+c)'(Dx+d)", A_mat=A, a_vec=a, B_mat=A, b_vec=a, C_mat=B, c_vec=b,
            D_mat=B, d_vec=b)),
        ("integrate[quartic_outer]", lambda o: o.integrate(
            "(Ax+a)(Bx+b)'(Cx+c)(Dx+d)'", A_mat=A, a_vec=a, B_mat=B, b_vec=b, C_mat=B, c_vec=b,
            D_mat=A, d_vec=a)),
        ("integrate[xb'xx']", lambda o: o.integrate("xb'xx'", b_vec=J(np.ones(D)))),
    ]
    for fk in ("general", "rank1", "linear", "constant", "measure"):
        f2, _ = build.mk_factor(fk, rng, 2, D, kappa=10.0)
        fR, _ = build.mk_factor(fk, rng, R, D, kappa=10.0)
        for uf in (False, True):
            ops.append((f"multiply[{fk},uf={int(uf)}]",
                        lambda o, f2=f2, uf=uf: o.multiply(f2, update_full=uf)))
            ops.append((f"multiply[{fk},uf={int(uf)}].log_integral",
                        lambda o, f2=f2, uf=uf: o.multiply(f2, update_full=uf).log_integral()))
            ops.append((f"hadamard[{fk},uf={int(uf)}]",
                        lambda o, fR=fR, uf=uf: o.hadamard(fR, update_full=uf)))
        if fk != "measure":
            ops.append((f"integrate[log u(x)][{fk}]",
                        lambda o, fR=fR: o.integrate("log u(x)", factor=fR)))
    if is_pdf:
        q, _ = build.mk_pdf(rng, R, D, kappa=10.0)
        import jax
        key = jax.random.PRNGKey(int(rng.integers(0, 2 ** 31)))
        W = J(gen.lin_map(rng, R, 1, D)); wb = J(gen.vec(rng, R, 1))
        ops += [
            ("entropy", lambda o: o.entropy()),
            ("kl_divergence(self, q)", lambda o: o.kl_divergence(q)),
            ("kl_divergence(q, self)", lambda o: q.kl_divergence(o)),
            ("sample", lambda o: o.sample(key, 5)),
            ("get_density_of_linear_sum", lambda o: o.get_density_of_linear_sum(W, wb)),
        ]
        if D > 1:
            dims = JI(rng.permutation(D)[: D - 1])
            ops += [("get_marginal", lambda o: o.get_marginal(dims)),
                    ("condition_on", lambda o: o.condition_on(dims[:1])),
                    ("condition_on.condition_on_x",
                     lambda o: o.condition_on(dims[:1]).condition_on_x(J(np.ones((2, 1)))))]
    for name, fn in ops:
        global rng0
        st = rng.bit_generator.state
        rng0 = np.random.default_rng(12345)
        a_ = lambda: fn(s)
        rng0 = np.random.default_rng(12345)

        def run_spec(fn=fn):
            global rng0
            rng0 = np.random.default_rng(12345)
            return fn(s)

        def run_gen(fn=fn):
            global rng0
            rng0 = np.random.default_rng(12345)
            return fn(g)

        both(rec, name, run_spec, run_gen, info, pair)
    # the same after the caches were filled by a read-only query on both sides
    if not is_pdf:
        s.integrate(); g.integrate()
        f2, _ = build.mk_factor("rank1", rng, 2, D)
        both(rec, "multiply[rank1,uf=1][cached]", lambda: s.multiply(f2, update_full=True),
             lambda: g.multiply(f2, update_full=True), info, pair)
        f3, _ = build.mk_factor("linear", rng, 2, D)
        both(rec, "multiply[linear,uf=1][cached]", lambda: s.multiply(f3, update_full=True),
             lambda: g.multiply(f3, update_full=True), info, pair)


rng0 = np.random.default_rng(12345)


def run_measure_pair(cell, rec, seed):
    pair, R, D = cell["pair"], cell["R"], cell["D"]
    L = build.lib()
    for rep in range(cell["reps"]):
        rng = gen.rng_for(seed, "C15", pair, R, D, rep)
        info = {"pair": pair, "R": R, "D": D}
        if pair == "diag_measure":
            s, t = build.mk_measure("diag_measure", rng, R, D, kappa=float(rng.choice(gen.KAPPAS)))
            g = L.measure.GaussianMeasure(Lambda=J(t.Lambda), nu=J(t.nu), ln_beta=J(t.ln_beta))
            measure_ops(rec, rng, s, g, t, info, pair, False)
        elif pair == "diag_pdf":
            s, t = build.mk_measure("diag_pdf", rng, R, D, kappa=float(rng.choice(gen.KAPPAS)))
            g = L.pdf.GaussianPDF(Sigma=J(t.Sigma), mu=J(t.mu))
            measure_ops(rec, rng, s, g, t, info, pair, True)
        else:
            s, t = build.mk_factor(pair, rng, R, D)
            g = L.factor.ConjugateFactor(Lambda=J(t.Lambda), nu=J(t.nu), ln_beta=J(t.ln_beta))
            x = J(gen.vec(rng, 4, D))
            xe = J(gen.vec(rng, R, D))
            idx = JI(rng.integers(-R, R, size=3))
            both(rec, "evaluate_ln", lambda: s.evaluate_ln(x), lambda: g.evaluate_ln(x), info, pair)
            both(rec, "evaluate_ln[element_wise]", lambda: s.evaluate_ln(xe, element_wise=True),
                 lambda: g.evaluate_ln(xe, element_wise=True), info, pair)
            both(rec, "evaluate", lambda: s.evaluate(x), lambda: g.evaluate(x), info, pair)
            both(rec, "product.evaluate_ln", lambda: s.product().evaluate_ln(x),
                 lambda: g.product().evaluate_ln(x), info, pair)
            both(rec, "slice.evaluate_ln", lambda: s.slice(idx).evaluate_ln(x),
                 lambda: g.slice(idx).evaluate_ln(x), info, pair)
            for mk in ("measure", "pdf", "diag_measure"):
                for cached in (False, True):
                    for uf in (False, True):
                        for R1 in (1, 2):
                            u1, tu = build.mk_measure(mk, rng, R1, D, kappa=float(rng.choice(
                                gen.KAPPAS[:4])))
                            u2, _ = build.mk_measure(mk, gen.rng_for(0), 1, D)  # placeholder
                            # identical operands for both sides: rebuild from the same truth
                            def mk_u():
                                if mk == "pdf":
                                    o = L.pdf.GaussianPDF(Sigma=J(tu.Sigma), mu=J(tu.mu))
                                elif mk == "measure":
                                    o = L.measure.GaussianMeasure(Lambda=J(tu.Lambda), nu=J(tu.nu),
                                                                  ln_beta=J(tu.ln_beta))
                                else:
                                    o = L.measure.GaussianDiagMeasure(
                                        Lambda=J(tu.Lambda), nu=J(tu.nu), ln_beta=J(tu.ln_beta))
                                if cached:
                                    o.integrate()
                                return o
                            tag = f"[{mk},cached={int(cached)},uf={int(uf)},R1={R1}]"
                            both(rec, "multiply" + tag,
                                 lambda: mk_u().multiply(s, update_full=uf),
                                 lambda: mk_u().multiply(g, update_full=uf), info, pair)
                            both(rec, "multiply.log_integral" + tag,
                                 lambda: mk_u().multiply(s, update_full=uf).log_integral(),
                                 lambda: mk_u().multiply(g, update_full=uf).log_integral(), info,
                                 pair)
                            both(rec, "multiply.integrate[xx']" + tag,
                                 lambda: mk_u().multiply(s, update_full=uf).integrate("xx'"),
                                 lambda: mk_u().multiply(g, update_full=uf).integrate("xx'"), info,
                                 pair)
                            if R1 == 1 or R1 == R:
                                both(rec, "hadamard" + tag,
                                     lambda: mk_u().hadamard(s, update_full=uf),
                                     lambda: mk_u().hadamard(g, update_full=uf), info, pair)
                                both(rec, "hadamard.log_integral" + tag,
                                     lambda: mk_u().hadamard(s, update_full=uf).log_integral(),
                                     lambda: mk_u().hadamard(g, update_full=uf).log_integral(),
                                     info, pair)
            uR, tuR = build.mk_measure("measure", rng, R, D, kappa=10.0)
            both(rec, "integrate[log u(x)]", lambda: uR.integrate("log u(x)", factor=s),
                 lambda: uR.integrate("log u(x)", factor=g), info, pair)


def run_cond_pair(cell, rec, seed):
    pair = cell["pair"].split(":")[1]
    Dx, Dy, Rc, Rx = cell["Dx"], cell["Dy"], cell["Rc"], cell["Rx"]
    L = build.lib()
    C = L.conditional
    for rep in range(cell["reps"]):
        rng = gen.rng_for(seed, "C15c", pair, Dx, Dy, Rc, Rx, rep)
        info = {"pair": "cond:" + pair, "Dx": Dx, "Dy": Dy, "Rc": Rc, "Rx": Rx}
        s, t, kw = build.mk_conditional(pair, rng, Rc, Dy, Dx, kappa=float(rng.choice(
            gen.KAPPAS[:4])))
        g = C.ConditionalGaussianPDF(M=J(t.M), b=J(t.b), Sigma=J(t.Sigma))
        vague = cell.get("vague")
        if vague:
            s0 = float(np.mean(np.diagonal(t.Sigma, axis1=1, axis2=2)))
            p, tp = build.mk_pdf(rng, Rx, Dx, kappa=10.0, scale=s0 * vague)
            # the posterior (gain, offset, covariance) and the predictive moments are well
            # conditioned functions of the inputs here (full-rank identity map): compared on
            # their own scale. Natural parameters (nu, ln_beta) of the results carry huge
            # cancelling terms in this regime and are not judged.
            def pick(o, names):
                return {n: np.asarray(getattr(o, n)) for n in names}
            both(rec, "affine_conditional_transformation[vague prior]",
                 lambda: pick(s.affine_conditional_transformation(p, **kw), ("M", "b", "Sigma")),
                 lambda: pick(g.affine_conditional_transformation(p), ("M", "b", "Sigma")),
                 dict(info, vague=vague), "cond:" + pair, relative=True)
            both(rec, "affine_marginal_transformation[vague prior]",
                 lambda: pick(s.affine_marginal_transformation(p, **kw), ("mu", "Sigma")),
                 lambda: pick(g.affine_marginal_transformation(p), ("mu", "Sigma")),
                 dict(info, vague=vague), "cond:" + pair, relative=True)
            continue
        p, tp = build.mk_pdf(rng, Rx, Dx, kappa=float(rng.choice(gen.KAPPAS[:4])),
                             diag=bool(rng.random() < 0.35))
        x = J(gen.points(rng, 3, tp.mu, tp.Sigma))
        N = Rc if Rc > 1 else 4
        y = J(gen.vec(rng, N, Dy))
        name = "cond:" + pair
        if pair == "nn":
            both(rec, "condition_on_x", lambda: s.condition_on_x_u(x, **kw),
                 lambda: g.condition_on_x(x), info, name)
            both(rec, "get_conditional_mu", lambda: s.get_conditional_mu(x, **kw),
                 lambda: g.get_conditional_mu(x), info, name)
            both(rec, "set_control_variable", lambda: s.set_control_variable(kw["u"]),
                 lambda: g, info, name)
            # a second NN-controlled conditional with another network, driven by the very same
            # control values in the same process: it must follow its own network
            s2, t2, kw2 = build.mk_conditional("nn", rng, Rc, Dy, Dx, kappa=10.0,
                                               u_fixed=np.asarray(kw["u"]))
            g2 = C.ConditionalGaussianPDF(M=J(t2.M), b=J(t2.b), Sigma=J(t2.Sigma))
            both(rec, "get_conditional_mu[second network, same control]",
                 lambda: s2.get_conditional_mu(x, **kw2), lambda: g2.get_conditional_mu(x),
                 info, name)
            both(rec, "affine_marginal_transformation[second network, same control]",
                 lambda: s2.affine_marginal_transformation(p, **kw2),
                 lambda: g2.affine_marginal_transformation(p), info, name)
        else:
            both(rec, "condition_on_x", lambda: s.condition_on_x(x), lambda: g.condition_on_x(x),
                 info, name)
            both(rec, "__call__", lambda: s(x), lambda: g(x), info, name)
            both(rec, "get_conditional_mu", lambda: s.get_conditional_mu(x),
                 lambda: g.get_conditional_mu(x), info, name)
            idx = JI(rng.integers(-Rc, Rc, size=2))
            # identity classes carry no M, b: compare the attributes both sides have
            both(rec, "slice", lambda: s.slice(idx), lambda: g.slice(idx), info, name,
                 common_only=True)
        both(rec, "set_y", lambda: s.set_y(y, **kw), lambda: g.set_y(y), info, name)
        both(rec, "set_y.product", lambda: s.set_y(y, **kw).product(),
             lambda: g.set_y(y).product(), info, name)
        for nm in ("affine_joint_transformation", "affine_marginal_transformation",
                   "affine_conditional_transformation", "conditional_entropy"):
            both(rec, nm, lambda nm=nm: getattr(s, nm)(p, **kw), lambda nm=nm: getattr(g, nm)(p),
                 info, name)
        if pair != "nn":
            both(rec, "mutual_information", lambda: s.mutual_information(p),
                 lambda: g.mutual_information(p), info, name)
        if Rc == 1:
            q, _ = build.mk_pdf(rng, Rx, Dy + Dx, kappa=10.0)
            both(rec, "integrate_log_conditional", lambda: s.integrate_log_conditional(q, **kw),
                 lambda: g.integrate_log_conditional(q), info, name)
            yy = J(gen.vec(rng, Rx if Rx > 1 else 3, Dy))
            both(rec, "integrate_log_conditional_y",
                 lambda: s.integrate_log_conditional_y(p, y=yy, **kw),
                 lambda: g.integrate_log_conditional_y(p, y=yy), info, name)
        if pair != "nn":
            Snew = gen.spd_batch(rng, Rc, Dy, kappa=10.0, diag=pair in ("diag", "identity_diag"))

            def upd(o):
                o.update_Sigma(J(Snew))
                return {k: np.asarray(getattr(o, k)) for k in ("Sigma", "Lambda", "ln_det_Sigma")}
            s2, _, _ = build.mk_conditional(pair, gen.rng_for(seed, "u", rep), Rc, Dy, Dx)
            g2 = C.ConditionalGaussianPDF(M=J(t.M), b=J(t.b), Sigma=J(t.Sigma))
            both(rec, "update_Sigma", lambda: upd(s2), lambda: upd(g2), info, name)


def run_cell(cell, rec, seed):
    if cell["pair"].startswith("cond:"):
        run_cond_pair(cell, rec, seed)
    else:
        run_measure_pair(cell, rec, seed)
