"""C02 - reported total mass equals the true integral; densities integrate to one."""
import numpy as np

from .. import build, core, gen, repotests
from .. import oracles as orc
from ..gen import J, JI

PROP = "C02"
HOSTILE = ('scale', 'special')
MONITORS = ("WF", "DENS", "FORM")
REQUIRED_MONITORS = ("DENS",)
ANCHORS = [("measure.py", "GaussianMeasure.compute_lnZ"),
           ("measure.py", "GaussianMeasure.log_integral_light"),
           ("measure.py", "GaussianMeasure.log_integral"),
           ("measure.py", "GaussianMeasure.integral_light"),
           ("measure.py", "GaussianMeasure.integral"), ("measure.py", "GaussianMeasure.normalize"),
           ("measure.py", "GaussianMeasure.get_density"), ("pdf.py", "GaussianPDF.__post_init__"),
           ("pdf.py", "GaussianDiagPDF.__post_init__"),
           ("utils/linalg.py", "invert_matrix"), ("utils/linalg.py", "invert_diagonal")]
RULE = ("cells: (a) measure kind x history (plain / product with each factor kind, both update_full "
        "/ hadamard / slice / queried) x R x D: all five mass read-outs against the closed form of the "
        "generator's parameters and, for D<=2, against Gauss-Hermite quadrature of the library's own "
        "evaluate(); (b) density constructor argument combinations and every density-returning API "
        "(get_density, slice, marginal, linear sum, update, condition_on_x of all conditional classes, "
        "exact and moment-matched joint/marginal transformations in three batch layouts) with the DENS "
        "monitor (ln beta = -ln Z(Lambda, nu)) on every density crossing the boundary; non-trivial: "
        "R>1 or D>1; distinct = cell tuple")

HIST = ["plain", "queried", "slice", "hadamard"] + [
    f"mul:{fk}:{int(uf)}" for fk in ("general", "rank1", "linear", "constant", "measure", "pdf")
    for uf in (0, 1)]


def cells(tier, seed):
    out = []
    Ds = (1, 2, 3, 5) if tier == "quick" else (1, 2, 3, 4, 5, 6)
    Rs = (1, 3) if tier == "quick" else (1, 2, 4, 6)
    reps = 1 if tier == "quick" else 6
    for mk in build.MEASURE_KINDS:
        for R in Rs:
            for D in Ds:
                out.append({"part": "mass", "mk": mk, "R": R, "D": D, "reps": reps,
                            "group": ["mass", R, D], "cost": 2.0})
    for R in Rs:
        for D in Ds:
            out.append({"part": "ctor", "R": R, "D": D, "reps": reps, "group": ["ctor", R, D],
                        "cost": 2.0})
    dims = [(1, 1), (2, 1), (1, 2), (2, 2), (3, 2), (2, 3)]
    if tier != "quick":
        dims += [(4, 2), (2, 4), (3, 3), (5, 3)]
    for ck in build.COND_KINDS:
        for (Dx, Dy) in dims:
            if ck.startswith("identity") and Dx != Dy:
                continue
            for lay in ((1, 1), (1, 3), (3, 1)):
                if ck == "nn" and lay == (3, 1) and False:
                    continue
                out.append({"part": "cond", "ck": ck, "Dx": Dx, "Dy": Dy, "Rc": lay[0],
                            "Rx": lay[1], "reps": reps, "group": ["cond", Dx, Dy, lay],
                            "cost": 1.5})
    adims = [(1, 1, 1, 1), (2, 2, 2, 2), (1, 2, 2, 3), (2, 1, 1, 2)]  # Dx, Dy, Dk, Da
    if tier != "quick":
        adims += [(3, 2, 3, 3), (2, 3, 2, 4), (1, 1, 2, 2), (2, 2, 1, 3)]
    for ak in build.APPROX_KINDS:
        for (Dx, Dy, Dk, Da) in adims:
            if ak in ("lrbf", "lsem"):
                Da_ = None
            else:
                Da_ = max(Da, Dy, Dk)
            for Rx in ((1, 3) if ak in ("lrbf", "lsem") else (1,)):
                # heteroscedastic moment matching takes one prior component (the documented
                # shapes of integrate_Sigma_x / _integrate_noise_diagonal); batches: see C12
                out.append({"part": "approx", "ak": ak, "Dx": Dx, "Dy": Dy, "Dk": Dk, "Da": Da_,
                            "Rx": Rx, "reps": reps, "group": ["approx", ak, Dx, Dy, Dk, Da_],
                            "cost": 3.0})
    out += repotests.cells(tier)
    return out


def _call(rec, what, fn, info):
    try:
        return fn()
    except Exception as e:
        rec.evaluations += 1
        rec.fail(f"raises:{what}:{type(e).__name__}@{core.exc_site(e)}",
                 dict(info, exc=core.exc_info(e)))
        return None


def quad_regime(mu, Sigma):
    """the quadrature of evaluate() carries eps * |exponent| of its own rounding: it is used as an
    oracle only for O(1) exponents (moderate scale, means within 100 sd, condition <= 1e3)."""
    sd = np.sqrt(np.max(np.diagonal(Sigma, axis1=1, axis2=2)))
    return bool(1e-2 < sd < 1e2 and np.max(np.abs(mu)) < 1e2 * sd and gen.cond(Sigma) <= 1e3)


def quad_mass(u, t, order=(40, 60)):
    """ln of the integral of the library's own evaluate() by Gauss-Hermite quadrature with an
    oracle-chosen proposal N(mu, 1.3^2 Sigma). returns (mass [R], converged)."""
    R, D = t.mu.shape
    res = []
    for o in order:
        m = np.zeros(R)
        a = np.zeros(R)  # absolute companion: exp() carries eps * |exponent| relative error
        for r in range(R):
            X, W = orc.gh_nodes(t.mu[r], 1.69 * t.Sigma[r], o)
            lq = orc.mvn_logpdf(X, t.mu[r:r + 1], 1.69 * t.Sigma[r:r + 1])[0]
            lu = np.asarray(u.evaluate_ln(J(X)))[r]
            m[r] = np.sum(W * np.exp(lu - lq))
            a[r] = np.sum(W * np.exp(lu - lq) * (1.0 + np.abs(lu) + np.abs(lq)))
        res.append(m)
    ok = bool(np.max(np.abs(res[0] - res[1]) / (np.abs(res[1]) + 1e-300)) < 1e-10)
    return res[1], ok, a


def check_mass(rec, u, t, info, tag, quad=True, pre_Lambda=None):
    """all mass read-outs of measure u against ground truth t (Lambda, nu, ln_beta).
    pre_Lambda: precision before a rank-one (Sherman-Morrison) update produced u's covariance:
    the update subtracts a rank-one matrix from the *old* covariance, so the old covariance is
    part of the natural scale of everything computed from the new one."""
    if not gen.in_domain(t.Lambda, kmax=1.001 * gen.KAPPA_MAX):
        # e.g. an O(1) rank-one term on top of a precision of scale 1e-8: neither the library
        # nor the float64 oracle resolves that (checked against mpmath), so it is not judged
        rec.count("out_of_domain")
        return
    ref = orc.gauss_lnZ(t.Lambda, t.nu) + t.ln_beta
    D = t.nu.shape[-1]
    S = orc.inv(t.Lambda)
    ns = 1.0 + 0.5 * (np.einsum("rd,rde,re->r", np.abs(t.nu), np.abs(S), np.abs(t.nu))
                      + D * orc.LN2PI + np.abs(orc.slogdet(t.Lambda))) + np.abs(t.ln_beta)
    if pre_Lambda is not None:
        S0 = np.abs(orc.inv(pre_Lambda))
        ns = ns + 0.5 * np.einsum("rd,rde,re->r", np.abs(t.nu), S0, np.abs(t.nu))
    for name, fn, is_log in (("log_integral_light", lambda: u.log_integral_light(), True),
                             ("log_integral", lambda: u.log_integral(), True),
                             ("integral_light", lambda: u.integral_light(), False),
                             ("integral", lambda: u.integral(), False),
                             ("integrate(1)", lambda: u.integrate("1"), False)):
        got = _call(rec, name, fn, info)
        if got is None:
            continue
        if is_log:
            rec.close(f"{name}", got, ref, ns=ns, detail=dict(info, tag=tag),
                      mech=f"mass-closed-form:{name}:{tag}")
        else:
            rec.close(f"{name}", got, np.exp(ref), ns=np.exp(ref) * ns + 1e-280,
                      detail=dict(info, tag=tag), mech=f"mass-closed-form:{name}:{tag}")
    if quad and D <= 2 and gen.in_domain(t.Lambda) and quad_regime(
            *orc.moments_from_natural(t.Lambda, t.nu)):
        mu, Sig = orc.moments_from_natural(t.Lambda, t.nu)
        tt = build.Truth(mu=mu, Sigma=Sig)
        m, ok, a = quad_mass(u, tt)
        if not ok:
            rec.count("oracle_unconverged")
        else:
            got = _call(rec, "integral", lambda: u.integral(), info)
            if got is not None:
                rec.close("integral-vs-quadrature-of-evaluate", got, m, ns=a + 1e-280,
                          detail=dict(info, tag=tag), mech=f"mass-quadrature:{tag}")


def outer(tu, tf):
    R1, R2 = tu.nu.shape[0], tf.nu.shape[0]
    D = tu.nu.shape[1]
    return build.Truth(Lambda=(tu.Lambda[:, None] + tf.Lambda[None]).reshape(R1 * R2, D, D),
                       nu=(tu.nu[:, None] + tf.nu[None]).reshape(R1 * R2, D),
                       ln_beta=(tu.ln_beta[:, None] + tf.ln_beta[None]).reshape(R1 * R2))


def run_mass(cell, rec, seed):
    mk, R, D = cell["mk"], cell["R"], cell["D"]
    for rep in range(cell["reps"]):
        for h in HIST:
            rng = gen.rng_for(seed, "C02m", mk, R, D, h, rep)
            kappa = float(rng.choice(gen.KAPPAS))
            u, tu = build.mk_measure(mk, rng, R, D, kappa=kappa)
            info = {"part": "mass", "mk": mk, "R": R, "D": D, "history": h, "kappa": kappa}
            rec.cell(["mass", mk, R, D, h], R > 1 or D > 1)
            if h == "plain":
                check_mass(rec, u, tu, info, "plain")
            elif h == "queried":
                x = J(gen.points(rng, 3, tu.mu, tu.Sigma))
                _call(rec, "evaluate", lambda: u.evaluate(x), info)
                _call(rec, "integrate(x)", lambda: u.integrate("x"), info)
                check_mass(rec, u, tu, info, "queried", quad=False)
                d = _call(rec, "get_density", lambda: u.get_density(), info)
                check_mass(rec, u, tu, info, "after-get_density", quad=False)
            elif h == "slice":
                idx = rng.integers(0, R, size=R + 1)
                s = _call(rec, "slice", lambda: u.slice(JI(idx)), info)
                if s is not None:
                    ts = build.Truth(Lambda=tu.Lambda[idx], nu=tu.nu[idx], ln_beta=tu.ln_beta[idx])
                    check_mass(rec, s, ts, info, "slice")
                u.integrate()
                s = _call(rec, "slice", lambda: u.slice(JI(idx)), info)
                if s is not None:
                    check_mass(rec, s, ts, info, "slice-cached", quad=False)
            elif h == "hadamard":
                for fk in ("general", "rank1", "linear", "constant"):
                    for uf in (False, True):
                        f, tf = build.mk_factor(fk, rng, R, D)
                        r = _call(rec, "hadamard", lambda: u.hadamard(f, update_full=uf), info)
                        if r is not None:
                            tr = build.Truth(Lambda=tu.Lambda + tf.Lambda, nu=tu.nu + tf.nu,
                                             ln_beta=tu.ln_beta + tf.ln_beta)
                            check_mass(rec, r, tr, dict(info, fk=fk, uf=uf), f"hadamard:{fk}",
                                       quad=(uf and fk == "rank1"),
                                       pre_Lambda=tu.Lambda if fk == "rank1" else None)
            else:
                _, fk, uf = h.split(":")
                uf = bool(int(uf))
                R2 = 2
                f, tf = build.mk_factor(fk, rng, R2, D, kappa=float(rng.choice(gen.KAPPAS)))
                cached = bool(rng.integers(0, 2))
                if cached:
                    u.integrate()
                r = _call(rec, "multiply", lambda: u.multiply(f, update_full=uf), info)
                if r is not None:
                    tr = outer(tu, tf)
                    if gen.in_domain(tr.Lambda):
                        pre = np.repeat(tu.Lambda, R2, axis=0) if fk == "rank1" else None
                        check_mass(rec, r, tr, dict(info, cached=cached), f"mul:{fk}",
                                   pre_Lambda=pre)
                        # a second product on top (rank-one update of an updated covariance)
                        f2, tf2 = build.mk_factor("rank1", rng, 1, D)
                        r2 = _call(rec, "multiply", lambda: r.multiply(f2, update_full=True), info)
                        if r2 is not None:
                            check_mass(rec, r2, outer(tr, tf2), dict(info, cached=cached),
                                       f"mul:{fk}+rank1", quad=False, pre_Lambda=tr.Lambda)
                        # normalising: get_density().evaluate_ln = u.evaluate_ln - ln int u
                        dn = _call(rec, "get_density", lambda: r.get_density(), info)
                        if dn is not None:
                            mu, Sig = orc.moments_from_natural(tr.Lambda, tr.nu)
                            x = gen.points(rng, 4, mu, Sig)
                            ref = orc.factor_ln(tr.Lambda, tr.nu, tr.ln_beta, x) - (
                                orc.gauss_lnZ(tr.Lambda, tr.nu) + tr.ln_beta)[:, None]
                            got = _call(rec, "evaluate_ln", lambda: dn.evaluate_ln(J(x)), info)
                            if got is not None:
                                ns_pre = 0.0
                                if pre is not None:  # Sherman-Morrison: old covariance in scale
                                    ns_pre = 0.5 * np.einsum("rd,rde,re->r", np.abs(tr.nu),
                                                             np.abs(orc.inv(pre)),
                                                             np.abs(tr.nu))[:, None]
                                rec.close("normalised = u / int u", got, ref,
                                          ns=orc.factor_ln_abs(tr.Lambda, tr.nu, tr.ln_beta, x)
                                          + np.abs(orc.gauss_lnZ(tr.Lambda, tr.nu))[:, None]
                                          + ns_pre,
                                          detail=info, mech=f"normalise:{fk}")
                    else:
                        rec.count("out_of_domain")


def check_density(rec, p, mu, Sig, info, tag, quad=True):
    """p must be the normal density N(mu, Sig): value, mass one (reported and by quadrature)."""
    rng = np.random.default_rng(0)
    x = gen.points(rng, 5, mu, Sig)
    got = _call(rec, "evaluate_ln", lambda: p.evaluate_ln(J(x)), info)
    if got is not None:
        rec.close("density value", got, orc.mvn_logpdf(x, mu, Sig), ns=orc.mvn_logpdf_abs(x, mu, Sig),
                  detail=dict(info, tag=tag), mech=f"density-value:{tag}")
    one = _call(rec, "integrate", lambda: p.integrate(), info)
    if one is not None:
        rec.close("reported mass one", one, np.ones(mu.shape[0]), ns=1.0,
                  detail=dict(info, tag=tag), mech=f"density-reported-mass:{tag}")
    if quad and mu.shape[1] <= 2 and quad_regime(mu, Sig):
        m, ok, a = quad_mass(p, build.Truth(mu=mu, Sigma=Sig))
        if ok:
            rec.close("quadrature mass one", m, np.ones(mu.shape[0]), ns=a,
                      detail=dict(info, tag=tag), mech=f"density-quadrature-mass:{tag}")
        else:
            rec.count("oracle_unconverged")


def run_ctor(cell, rec, seed):
    L = build.lib()
    R, D = cell["R"], cell["D"]
    for rep in range(cell["reps"]):
        for diag in (False, True):
            for combo in ("Sigma", "Sigma+Lambda", "Sigma+Lambda+ln_det"):
                rng = gen.rng_for(seed, "C02c", R, D, diag, combo, rep)
                kappa = float(rng.choice(gen.KAPPAS))
                Sig = gen.spd_batch(rng, R, D, kappa, diag=diag)
                mu = gen.vec(rng, R, D, scale=2.0)
                info = {"part": "ctor", "R": R, "D": D, "diag": diag, "combo": combo,
                        "kappa": kappa}
                kw = {"Sigma": J(Sig), "mu": J(mu)}
                if "Lambda" in combo:
                    kw["Lambda"] = J(orc.inv(Sig))
                if "ln_det" in combo:
                    kw["ln_det_Sigma"] = J(orc.slogdet(Sig))
                cls = L.pdf.GaussianDiagPDF if diag else L.pdf.GaussianPDF
                p = _call(rec, "ctor", lambda: cls(**kw), info)
                rec.cell(["ctor", R, D, diag, combo], R > 1 or D > 1)
                if p is None:
                    continue
                check_density(rec, p, mu, Sig, info, f"ctor:{combo}:{'diag' if diag else 'full'}")
                if combo != "Sigma":
                    continue
                # density-returning APIs on this density
                idx = rng.integers(0, R, size=R + 1)
                s = _call(rec, "slice", lambda: p.slice(JI(idx)), info)
                if s is not None:
                    check_density(rec, s, mu[idx], Sig[idx], info, "slice", quad=False)
                if D >= 2:
                    k = int(rng.integers(1, D + 1))
                    dims = rng.permutation(D)[:k]
                    m = _call(rec, "get_marginal", lambda: p.get_marginal(JI(dims)), info)
                    if m is not None:
                        check_density(rec, m, mu[:, dims], Sig[:, dims][:, :, dims], info,
                                      "marginal", quad=(k <= 2))
                    c = _call(rec, "condition_on", lambda: p.condition_on(JI(dims[:1])), info)
                    if c is not None:
                        xb = gen.vec(rng, 2, 1)
                        q = _call(rec, "condition_on_x", lambda: c.condition_on_x(J(xb)), info)
                        if q is not None:
                            ia = np.array([i for i in range(D) if i != dims[0]])
                            ms, Cs = [], []
                            for r in range(R):
                                mm, CC = orc.condition(mu[r], Sig[r], ia, dims[:1], xb)
                                ms.append(mm)
                                Cs.append(np.tile(CC[None], (2, 1, 1)))
                            check_density(rec, q, np.concatenate(ms), np.concatenate(Cs), info,
                                          "condition_on_x", quad=False)
                            # the same density, the same conditioning set, the free coordinates
                            # named explicitly in another order (rows follow the requested list)
                            if len(ia) >= 2:
                                ip = ia[rng.permutation(len(ia))]
                                ce = _call(rec, "condition_on_explicit",
                                           lambda: p.condition_on_explicit(JI(dims[:1]), JI(ip)),
                                           info)
                                qe = None if ce is None else _call(
                                    rec, "condition_on_x", lambda: ce.condition_on_x(J(xb)), info)
                                if qe is not None:
                                    pos = np.array([int(np.where(ia == i)[0][0]) for i in ip])
                                    check_density(rec, qe, np.concatenate(ms)[:, pos],
                                                  np.concatenate(Cs)[:, pos][:, :, pos], info,
                                                  "condition_on_explicit", quad=False)
                Ds = int(rng.integers(1, D + 1))
                W = gen.lin_map(rng, R, Ds, D)
                bb = gen.vec(rng, R, Ds)
                ls = _call(rec, "linear_sum", lambda: p.get_density_of_linear_sum(J(W), J(bb)), info)
                if ls is not None:
                    Sl = np.einsum("rab,rbc,rdc->rad", W, Sig, W)
                    if gen.in_domain(Sl):
                        check_density(rec, ls, np.einsum("rab,rb->ra", W, mu) + bb, Sl, info,
                                      "linear_sum", quad=False)
                # in-place update (both classes carry their own copy of the method), on a fresh
                # and on a queried object; the replaced component has another normaliser
                for warm in (False, True):
                    d2, t2 = build.mk_pdf(rng, 1, D, diag=diag)
                    i0 = int(rng.integers(0, R))
                    pu = cls(Sigma=J(Sig), mu=J(mu))
                    if warm:
                        _call(rec, "integrate", lambda: (pu.integrate(), pu.log_integral()), info)
                    ok = _call(rec, "update", lambda: (pu.update(JI([i0]), d2), True)[1], info)
                    if ok:
                        mu2, Sig2 = mu.copy(), Sig.copy()
                        mu2[i0], Sig2[i0] = t2.mu[0], t2.Sigma[0]
                        tag = f"update:{'diag' if diag else 'full'}"
                        check_density(rec, pu, mu2, Sig2, info, tag, quad=False)
                        check_mass(rec, pu, build.truth_from_moments(mu2, Sig2), info, tag,
                                   quad=False)
                # normalising a measure with the same parameters
                u, tu = build.mk_measure("diag_measure" if diag else "measure", rng, R, D, kappa)
                dn = _call(rec, "get_density", lambda: u.get_density(), info)
                if dn is not None:
                    check_density(rec, dn, tu.mu, tu.Sigma, info, "get_density")


def run_cond(cell, rec, seed):
    ck, Dx, Dy, Rc, Rx = cell["ck"], cell["Dx"], cell["Dy"], cell["Rc"], cell["Rx"]
    for rep in range(cell["reps"]):
        rng = gen.rng_for(seed, "C02d", ck, Dx, Dy, Rc, Rx, rep)
        kappa = float(rng.choice(gen.KAPPAS[:4]))
        c, tc, kw = build.mk_conditional(ck, rng, Rc, Dy, Dx, kappa=kappa)
        p, tp = build.mk_pdf(rng, Rx, Dx, kappa=float(rng.choice(gen.KAPPAS[:4])))
        info = {"part": "cond", "ck": ck, "Dx": Dx, "Dy": Dy, "Rc": Rc, "Rx": Rx}
        rec.cell(["cond", ck, Dx, Dy, Rc, Rx], True)
        x = gen.points(rng, 3, tp.mu, tp.Sigma)
        # p(y | x = x_n): component r*N+n
        if ck == "nn":
            q = _call(rec, "condition_on_x_u", lambda: c.condition_on_x_u(J(x), **kw), info)
            _call(rec, "__call__", lambda: c(J(x), **kw), info)
        else:
            q = _call(rec, "condition_on_x", lambda: c.condition_on_x(J(x)), info)
            _call(rec, "__call__", lambda: c(J(x)), info)
        if q is not None:
            mus = (np.einsum("rab,nb->rna", tc.M, x) + tc.b[:, None]).reshape(Rc * 3, Dy)
            Ss = np.repeat(tc.Sigma, 3, axis=0)
            check_density(rec, q, mus, Ss, info, f"condition_on_x:{ck}", quad=False)
        # joint / marginal transformation: value checks are C07/C08, here mass one
        Sy = tc.Sigma[:, None] + np.einsum("rab,sbc,rdc->rsad", tc.M, tp.Sigma, tc.M)
        if not gen.in_domain(Sy.reshape(-1, Dy, Dy)):
            rec.count("out_of_domain")
            continue
        j = _call(rec, "affine_joint_transformation",
                  lambda: c.affine_joint_transformation(p, **kw), info)
        if j is not None:
            one = _call(rec, "integrate", lambda: j.integrate(), info)
            if one is not None:
                rec.close("joint reported mass", one, np.ones(Rc * Rx), ns=1.0, detail=info,
                          mech=f"joint-reported-mass:{ck}")
        m = _call(rec, "affine_marginal_transformation",
                  lambda: c.affine_marginal_transformation(p, **kw), info)
        if m is not None:
            one = _call(rec, "integrate", lambda: m.integrate(), info)
            if one is not None:
                rec.close("marginal reported mass", one, np.ones(Rc * Rx), ns=1.0, detail=info,
                          mech=f"marginal-reported-mass:{ck}")


def run_approx(cell, rec, seed):
    ak, Dx, Dy, Dk, Da, Rx = (cell[k] for k in ("ak", "Dx", "Dy", "Dk", "Da", "Rx"))
    for rep in range(cell["reps"]):
        rng = gen.rng_for(seed, "C02a", ak, Dx, Dy, Dk, Da, Rx, rep)
        if ak in build.HET_KINDS and Dk > (Da or Dy):
            continue
        c, tc = build.mk_approx(ak, rng, Dy, Dx, Dk, Da=Da)
        p, tp = build.mk_pdf(rng, Rx, Dx, kappa=10.0, scale=0.5)
        info = {"part": "approx", "ak": ak, "Dx": Dx, "Dy": Dy, "Dk": Dk, "Da": Da, "Rx": Rx}
        rec.cell(["approx", ak, Dx, Dy, Dk, Da, Rx], True)
        x = gen.points(rng, 3, tp.mu, tp.Sigma, far=False)
        q = _call(rec, "condition_on_x", lambda: c.condition_on_x(J(x)), info)
        if q is not None:
            one = _call(rec, "integrate", lambda: q.integrate(), info)
            if one is not None:
                rec.close("condition_on_x reported mass", one, np.ones(3), ns=1.0, detail=info,
                          mech=f"approx-reported-mass:{ak}")
            if ak in build.HET_KINDS:
                # the density the object presents must be the normal density with the stated law
                mus = x @ tc.M[0].T + tc.b[0][None]
                Ss = build.het_cov(tc, x)
                if gen.in_domain(Ss):
                    tag = f"het-condition_on_x:{'Da>Dy' if Da > Dy else 'Da=Dy'}"
                    xs = mus + 0.7
                    got = _call(rec, "evaluate_ln", lambda: q.evaluate_ln(J(xs), element_wise=True),
                                info)
                    if got is not None:
                        rec.close("het density value", got, orc.mvn_logpdf_elem(xs, mus, Ss),
                                  ns=1.0 + np.abs(orc.mvn_logpdf_elem(xs, mus, Ss)) + Dy,
                                  detail=dict(info, tag=tag), mech=f"density-value:{tag}")
        if ak in ("het_step", "het_relu") and Rx > 1 and False:
            continue
        for name in ("affine_joint_transformation", "affine_marginal_transformation"):
            r = _call(rec, name, lambda: getattr(c, name)(p), info)
            if r is not None:
                one = _call(rec, "integrate", lambda: r.integrate(), info)
                if one is not None:
                    rec.close(f"{name} reported mass", one, np.ones(Rx), ns=1.0, detail=info,
                              mech=f"approx-reported-mass:{ak}:{name}")


def run_cell(cell, rec, seed):
    if "repo_tests" in cell:
        return repotests.run(cell, rec)
    if cell["part"] == "approx":
        with gen.calm():  # kernels and link functions have an intrinsic O(1) scale
            return run_approx(cell, rec, seed)
    {"mass": run_mass, "ctor": run_ctor, "cond": run_cond, "approx": run_approx}[cell["part"]](
        cell, rec, seed)


def classify(mech, d):
    return mech
