"""C04 - cached covariance, log-determinants, mean and log-partition always match;
no result depends on which read-only queries were made on its operands beforehand.

Deciding monitors: CACHE and SPEC online on every object that crosses the API boundary
while random operation histories run, plus an offline differential check of the same
history executed under four schedules:
  A  as generated (each product draws its own update_full flag)
  B  A with random read-only queries inserted before random steps (cache warming)
  C  update_full=True on every product (inversion / Sherman-Morrison / reuse paths)
  D  update_full=False on every product (lazy inversion at the end)
"""
import numpy as np

from .. import build, core, gen, repotests
from .. import oracles as orc
from ..gen import J, JI

PROP = "C04"
HOSTILE = ('scale', 'special')
MONITORS = ("WF", "CACHE", "SPEC", "DENS", "FORM")
REQUIRED_MONITORS = ("CACHE",)
ANCHORS = [("factor.py", "OneRankFactor._multiply_with_measure", "# Sherman morrison"),
           ("factor.py", "OneRankFactor._hadamard_with_measure", "# Sherman morrison"),
           ("factor.py", "LinearFactor._multiply_with_measure", "Sigma_new = jnp.tile"),
           ("factor.py", "LinearFactor._hadamard_with_measure", "if update_full"),
           ("factor.py", "ConstantFactor._multiply_with_measure", "Sigma_new = jnp.tile"),
           ("factor.py", "ConstantFactor._hadamard_with_measure", "if update_full"),
           ("measure.py", "GaussianMeasure._prepare_integration"),
           ("measure.py", "GaussianMeasure.compute_lnZ"), ("measure.py", "GaussianMeasure.invert_lambda"),
           ("measure.py", "GaussianMeasure.compute_mu"),
           ("utils/linalg.py", "invert_matrix"), ("utils/linalg.py", "invert_diagonal"),
           ("conditional.py", "ConditionalGaussianPDF.affine_joint_transformation", "# Log determinant"),
           ("conditional.py", "ConditionalIdentityGaussianPDF.affine_joint_transformation", "# Log determinant"),
           ("approximate_conditional.py", "HeteroscedasticConditional.get_conditional_cov"),
           ("measure.py", "GaussianMeasure.slice"), ("pdf.py", "GaussianPDF.slice"),
           ("pdf.py", "GaussianPDF.update")]
RULE = ("cell = one random typed program (op sequence over products with every factor kind, hadamard, "
        "product, slice, normalise/get_density, update, marginal, condition_on + condition_on_x, "
        "exact affine marginal/joint/conditional transformations of every linear conditional class, "
        "moment-matched transformations and condition_on_x of approximate conditionals), executed "
        "under four schedules; distinct = op-sequence signature (ops, kinds, flags, shapes); "
        "non-trivial: length >= 2 and (R>1 or D>1); evaluations = CACHE comparisons on every boundary "
        "object + cross-schedule comparisons")

QUERIES = ("integrate", "log_integral", "log_integral_light", "evaluate", "get_density",
           "integrate_x", "integrate_xx", "integral_light", "log_factor", "quartic", "entropy",
           "sample", "truncate", "slice", "evaluate_elementwise")


def cells(tier, seed):
    n = 96 if tier == "quick" else 1600
    maxlen = 5 if tier == "quick" else 8
    out = []
    for i in range(n):
        out.append({"prog": i, "maxlen": maxlen, "D": 1 + i % 3, "group": [i % 32], "cost": 1.0})
    for ak in build.HET_KINDS:
        for (Dx, Dy, Dk, Da) in ((1, 1, 1, 2), (2, 2, 2, 3), (1, 2, 1, 3)) + (
                () if tier == "quick" else ((2, 1, 2, 3), (3, 2, 3, 4))):
            out.append({"hetbad": ak, "Dx": Dx, "Dy": Dy, "Dk": Dk, "Da": Da,
                        "group": ["hetbad", ak], "cost": 0.5})
    out += hist_cells(tier)
    out += repotests.cells(tier)
    return out


# ------------------------------------------------------------------------- program generation
def gen_program(rng, D, maxlen):
    """typed op list; tracks (is_pdf, R, D) symbolically so every op is applicable."""
    ops = []
    start = str(rng.choice(build.MEASURE_KINDS))
    R = int(rng.choice([1, 2, 3]))
    ops.append(("start", start, R, D))
    is_pdf = start.endswith("pdf")
    n = int(rng.integers(2, maxlen + 1))
    while len(ops) - 1 < n:
        cand = ["mul", "mul", "mul", "had", "slice", "density", "product"]
        if is_pdf:
            cand += ["lin", "lin", "update", "approx", "linsum", "bayes"]
            if D > 1:
                cand += ["marginal", "condition", "explicit"]
        else:
            cand += ["normalize"]
        op = str(rng.choice(cand))
        if op == "mul":
            fk = str(rng.choice(build.FACTOR_KINDS))
            R2 = int(rng.choice([1, 1, 2]))
            if R * R2 > 12:
                continue
            ops.append(("mul", fk, R2, bool(rng.integers(0, 2))))
            R, is_pdf = R * R2, False
        elif op == "had":
            fk = str(rng.choice(("general", "rank1", "linear", "constant", "measure")))
            R2 = R if rng.integers(0, 2) else 1
            if R == 1 and rng.integers(0, 2):
                R2 = int(rng.choice([2, 3]))  # single-component measure broadcast over the factor
                R = R2
            ops.append(("had", fk, R2, bool(rng.integers(0, 2))))
            is_pdf = False
        elif op == "slice":
            k = int(rng.integers(1, min(R, 4) + 2))
            idx = [int(v) for v in rng.integers(-R, R, size=k)]
            ops.append(("slice", idx))
            R = k
        elif op == "product":
            if R == 1:
                continue
            ops.append(("product",))
            R, is_pdf = 1, False
        elif op == "density":
            ops.append(("density",))
            is_pdf = True
        elif op == "normalize":
            ops.append(("normalize",))
        elif op == "marginal":
            k = int(rng.integers(1, D))
            dims = [int(v) for v in rng.permutation(D)[:k]]
            ops.append(("marginal", dims))
            D = k
        elif op == "condition":
            k = int(rng.integers(1, D))
            dims = [int(v) for v in rng.permutation(D)[:k]]
            ops.append(("condition", dims))
            D = D - k
        elif op == "explicit":
            k = int(rng.integers(1, D))
            perm = [int(v) for v in rng.permutation(D)]
            ops.append(("explicit", perm[:k], perm[k:]))
            D = D - k
        elif op == "bayes":
            ck = str(rng.choice(("full", "diag", "identity")))
            Dy = D if ck == "identity" else int(rng.integers(1, 4))
            N = int(rng.integers(1, 4))
            ops.append(("bayes", ck, Dy, N))
            is_pdf = False
        elif op == "linsum":
            k = int(rng.integers(1, D + 1))
            ops.append(("linsum", k))
            D = k
        elif op == "update":
            ops.append(("update", int(rng.integers(0, R))))
        elif op == "lin":
            ck = str(rng.choice(build.COND_KINDS))
            which = str(rng.choice(("marginal", "joint", "posterior")))
            Dy = D if ck.startswith("identity") else int(rng.integers(1, 4))
            Rc = 1 if (R > 1 or rng.integers(0, 2)) else 2
            if which == "joint" and D + Dy > 5:
                which = "marginal"
            ops.append(("lin", ck, which, Dy, Rc))
            R = R * Rc
            D = {"marginal": Dy, "joint": D + Dy, "posterior": D}[which]
        elif op == "approx":
            if R != 1 and rng.integers(0, 2):
                continue
            ak = str(rng.choice(build.APPROX_KINDS))
            if ak in build.HET_KINDS and (R != 1 or len(ops) != 1):
                # exp / cosh links overflow float64 once the variance of w'x gets large: a
                # heteroscedastic step is only taken directly after a start of moderate scale
                continue
            which = str(rng.choice(("marginal", "joint", "posterior", "condition_on_x")))
            Dy = int(rng.integers(1, 3))
            Dk = int(rng.integers(1, 3))
            Da = max(Dy, Dk) + int(rng.integers(0, 2))
            if which == "condition_on_x":
                # Da > Dy makes condition_on_x incoherent (known finding F09); inside programs
                # only the clean regime is used so that nothing is derived from a bad object.
                # The Da > Dy regime has its own dedicated cells ("hetbad") below.
                Da = max(Dy, Dk)
                if Dk > Dy:
                    Dk = Dy
                    Da = Dy
            if which == "joint" and D + Dy > 5:
                which = "marginal"
            ops.append(("approx", ak, which, Dy, Dk, Da))
            if which == "condition_on_x":
                R, D = 2, Dy
            else:
                D = {"marginal": Dy, "joint": D + Dy, "posterior": D}[which]
    return ops


def signature(ops):
    sig = []
    for o in ops:
        if o[0] == "slice":
            sig.append(("slice", len(o[1])))
        elif o[0] in ("marginal", "condition"):
            sig.append((o[0], len(o[1])))
        elif o[0] == "explicit":
            sig.append((o[0], len(o[1]), len(o[2])))
        else:
            sig.append(tuple(o))
    return sig


# ------------------------------------------------------------------------- interpreter
class Stop(Exception):
    pass


def cur_domain_ok(cur):
    Lam = np.asarray(cur.Lambda, dtype=float)
    return gen.in_domain(Lam)


def do_query(cur, q, x):
    if q == "integrate":
        cur.integrate()
    elif q == "log_integral":
        cur.log_integral()
    elif q == "log_integral_light":
        cur.log_integral_light()
    elif q == "integral_light":
        cur.integral_light()
    elif q == "evaluate":
        cur.evaluate(x)
    elif q == "get_density":
        cur.get_density()
    elif q == "integrate_x":
        cur.integrate("x")
    elif q == "integrate_xx":
        cur.integrate("xx'")
    elif q == "log_factor":
        L = build.lib()
        cur.integrate("log u(x)", factor=L.factor.LinearFactor(nu=J(np.ones((1, cur.D)))))
    elif q == "quartic":
        A = J(np.ones((1, cur.D)))
        cur.integrate("(Ax+a)'(Bx+b)(Cx+c)'(Dx+d)", A_mat=A, B_mat=A, C_mat=A, D_mat=A)
    elif q == "entropy":
        if hasattr(cur, "entropy"):
            cur.entropy()
    elif q == "sample":
        if hasattr(cur, "sample"):
            import jax
            cur.sample(jax.random.PRNGKey(0), 2)
    elif q == "truncate":
        if cur.D == 1:
            from gaussian_toolbox.experimental import truncated_measure as tm
            tm.TruncatedGaussianMeasure(measure=cur, lower_limit=0.0).integrate("x")
    elif q == "slice":
        cur.slice(JI([0])).integrate()
    elif q == "evaluate_elementwise":
        cur.evaluate_ln(J(np.zeros((cur.R, cur.D)) + 0.1), element_wise=True)


def execute(ops, seed_key, schedule, qrng, rec, info, scale=None):
    """runs the program; operands are regenerated from seed_key so that all schedules see
    identical inputs. returns list of per-step snapshots.

    scale (C18): a scalar multiplied into the start object's information vector / mean; when it
    is a traced value the whole program is traced (every later quantity depends on it). In that
    mode nothing is converted to NumPy: the function returns the final read-outs as jax arrays."""
    L = build.lib()
    traced = scale is not None
    # index sets are static configuration: NumPy arrays when the program is traced (C18)
    IX = (lambda a: np.asarray(a, dtype=np.int32)) if traced else JI
    snaps = []
    cur = None
    for step, op in enumerate(ops):
        rng = gen.rng_for(*seed_key, step)  # operand stream of this step
        if schedule == "B" and cur is not None:
            nq = int(qrng.integers(0, 3))
            D = cur.D
            xq = J(np.zeros((2, D)) + 0.3)
            for _ in range(nq):
                q = str(qrng.choice(QUERIES))
                do_query(cur, q, xq)
        uf_override = {"C": True, "D": False}.get(schedule)
        kind = op[0]
        if kind == "start":
            if any(o[0] == "approx" and o[1] in build.HET_KINDS for o in ops):
                with gen.calm():
                    cur, t0 = build.mk_measure(op[1], rng, op[2], op[3], kappa=10.0, scale=0.5)
            else:
                cur, t0 = build.mk_measure(op[1], rng, op[2], op[3],
                                           kappa=float(rng.choice(gen.KAPPAS[:4])))
            if traced:
                if op[1].endswith("pdf"):
                    cur = type(cur)(Sigma=J(t0.Sigma), mu=J(t0.mu) * scale)
                else:
                    cur = type(cur)(Lambda=J(t0.Lambda), nu=J(t0.nu) * scale, ln_beta=J(t0.ln_beta))
        elif kind in ("mul", "had"):
            _, fk, R2, uf = op
            uf = uf if uf_override is None else uf_override
            f, _ = build.mk_factor(fk, rng, R2, cur.D, kappa=float(rng.choice(gen.KAPPAS[:3])))
            cur = cur.multiply(f, update_full=uf) if kind == "mul" else cur.hadamard(
                f, update_full=uf)
        elif kind == "slice":
            cur = cur.slice(IX(op[1]))
        elif kind == "product":
            cur = cur.product()
        elif kind == "density":
            cur = cur.get_density()
        elif kind == "normalize":
            cur.normalize()
        elif kind == "marginal":
            cur = cur.get_marginal(IX(op[1]))
        elif kind == "condition":
            c = cur.condition_on(IX(op[1]))
            xb = gen.vec(rng, 1, len(op[1]))
            cur = c.condition_on_x(J(xb))
        elif kind == "explicit":
            c = cur.condition_on_explicit(IX(op[1]), IX(op[2]))
            xb = gen.vec(rng, 1, len(op[1]))
            cur = c.condition_on_x(J(xb))
        elif kind == "bayes":
            _, ck, Dy, N = op
            c, tc, kw = build.mk_conditional(ck, rng, 1, Dy, cur.D, kappa=10.0)
            y = gen.vec(rng, N, Dy)
            cur = cur.multiply(c.set_y(J(y)).product(), update_full=bool(uf_override))
        elif kind == "linsum":
            W = gen.lin_map(rng, cur.R, op[1], cur.D)
            b = gen.vec(rng, cur.R, op[1])
            cur = cur.get_density_of_linear_sum(J(W), J(b))
        elif kind == "update":
            # a diagonal density is updated with a diagonal one (its documented argument type)
            d, _ = build.mk_pdf(rng, 1, cur.D, kappa=10.0,
                                diag=type(cur).__name__ == "GaussianDiagPDF")
            cur.update(IX([op[1]]), d)
        elif kind == "lin":
            _, ck, which, Dy, Rc = op
            c, tc, kw = build.mk_conditional(ck, rng, Rc, Dy, cur.D, kappa=10.0)
            if which == "marginal":
                cur = c.affine_marginal_transformation(cur, **kw)
            elif which == "joint":
                cur = c.affine_joint_transformation(cur, **kw)
            else:
                post = c.affine_conditional_transformation(cur, **kw)
                y = gen.vec(rng, 1, Dy)
                cur = post.condition_on_x(J(y))
        elif kind == "approx":
            _, ak, which, Dy, Dk, Da = op
            c, tc = build.mk_approx(ak, rng, Dy, cur.D, Dk, Da=Da)
            if which == "marginal":
                cur = c.affine_marginal_transformation(cur)
            elif which == "joint":
                cur = c.affine_joint_transformation(cur)
            elif which == "posterior":
                post = c.affine_conditional_transformation(cur)
                cur = post.condition_on_x(J(gen.vec(rng, 1, Dy)))
            else:
                if traced:
                    xs = J(gen.vec(rng, 2, cur.D, scale=0.5))
                else:
                    mu = np.asarray(cur.mu if cur.mu is not None else np.zeros((1, cur.D)))
                    xs = J(mu[:1] + gen.vec(rng, 2, cur.D, scale=0.5))
                cur = c.condition_on_x(xs)
        if traced:
            continue
        if not cur_domain_ok(cur):
            raise Stop(step)
        snaps.append({k: np.asarray(getattr(cur, k), dtype=float)
                      for k in ("Lambda", "nu", "ln_beta")})
    if traced:
        d = cur.get_density()
        return (cur.log_integral(), cur.integrate("x"), cur.integrate("xx'"), d.mu, d.Sigma,
                d.entropy())
    # final read-outs (these fill caches; CACHE monitors them at the boundary)
    fin = {"log_integral": np.asarray(cur.log_integral()),
           "Ex": np.asarray(cur.integrate("x")),
           "Exx": np.asarray(cur.integrate("xx'"))}
    # the same read-outs a second time: a read-only query must not change what the next one returns
    fin["log_integral(2nd call)"] = np.asarray(cur.log_integral())
    fin["Ex(2nd call)"] = np.asarray(cur.integrate("x"))
    d = cur.get_density()
    fin["dens_mu"] = np.asarray(d.mu)
    fin["dens_Sigma"] = np.asarray(d.Sigma)
    fin["entropy"] = np.asarray(d.entropy())
    return snaps, fin


def run_hetbad(cell, rec, seed):
    """condition_on_x in the Da > Dy regime (and the same draw with Da = Dy as control)."""
    ak, Dx, Dy, Dk, Da = (cell[k] for k in ("hetbad", "Dx", "Dy", "Dk", "Da"))
    for da in (Da, max(Dy, Dk)):
        rng = gen.rng_for(seed, "C04het", ak, Dx, Dy, Dk, da)
        c, tc = build.mk_approx(ak, rng, Dy, Dx, min(Dk, da), Da=da)
        x = gen.vec(rng, 3, Dx, scale=0.7)
        rec.cell(["het condition_on_x", ak, Dx, Dy, Dk, da], True)
        rec.set_ctx(cell=cell, Da=da)
        try:
            c.condition_on_x(J(x))
        except Exception as e:
            rec.evaluations += 1
            rec.fail(f"raises:{type(e).__name__}@{core.exc_site(e)}", {"exc": core.exc_info(e)})


def run_cell(cell, rec, seed):
    if "repo_tests" in cell:
        return repotests.run(cell, rec)
    if "hetbad" in cell:
        return run_hetbad(cell, rec, seed)
    if "hist" in cell:
        return run_history(cell, rec, seed)
    i, D, maxlen = cell["prog"], cell["D"], cell["maxlen"]
    prng = gen.rng_for(seed, "C04prog", i)
    ops = gen_program(prng, D, maxlen)
    sig = signature(ops)
    info = {"program": [list(map(str, o)) for o in ops]}
    rec.set_ctx(cell=cell, **info)
    results = {}
    seed_key = (seed, "C04ops", i)
    for sched in ("A", "B", "C", "D"):
        qrng = gen.rng_for(seed, "C04q", i)
        try:
            results[sched] = execute(ops, seed_key, sched, qrng, rec, info)
        except Stop as s:
            rec.count("out_of_domain")
            return
        except Exception as e:
            rec.evaluations += 1
            rec.fail(f"raises:{type(e).__name__}@{core.exc_site(e)}",
                     dict(info, schedule=sched, exc=core.exc_info(e)))
            return
    het_bad = any(o[0] == "approx" and o[1] in build.HET_KINDS and o[5] > o[3] for o in ops)
    nontriv = len(ops) >= 3
    rec.cell(sig, nontriv)
    sA, fA = results["A"]
    for sched in ("B", "C", "D"):
        s, f = results[sched]
        for step, (a, b) in enumerate(zip(sA, s)):
            for k in ("Lambda", "nu", "ln_beta"):
                ns = 1.0 + np.max(np.abs(a[k])) if a[k].size else 1.0
                rec.close(f"schedule {sched} vs A: {k}", b[k], a[k], ns=ns,
                          detail={"step": step, "op": str(ops[step]), "schedule": sched},
                          mech=f"schedule-dependence:{k}:{ops[step][0]}"
                          + (":hetDa>Dy" if het_bad else ""))
        for k in fA:
            ns = 1.0 + np.max(np.abs(fA[k]))
            rec.close(f"schedule {sched} vs A: final {k}", f[k], fA[k], ns=ns,
                      detail={"schedule": sched},
                      mech=f"schedule-dependence:final:{k}" + (":hetDa>Dy" if het_bad else ""))
    for k in ("log_integral", "Ex"):
        rec.close(f"second call of {k} returns the same", fA[k + "(2nd call)"], fA[k], exact=True,
                  detail={"schedule": "A"}, mech=f"second-call-differs:{k}")
    if i < 3:
        rec.sample({"program": info["program"], "final_log_integral": fA["log_integral"]})


# ------------------------------------------------------------------------------ histories
# An object that was queried, then changed in place by one of the declared mutators (update,
# normalize, update_Sigma, update_phi) must behave exactly like a freshly constructed object with
# the same parameters - whatever was computed (and possibly cached) before the mutation.
HIST_KINDS = (["pdf", "diag_pdf", "measure", "diag_measure"]
              + ["cond:" + k for k in ("full", "diag", "identity", "identity_diag", "nn")]
              + ["approx:lrbf", "approx:lsem"])


def hist_cells(tier):
    out = []
    shapes = [(2, 2), (3, 3)] if tier == "quick" else [(2, 2), (3, 3), (1, 4), (4, 2), (2, 5)]
    reps = 1 if tier == "quick" else 4
    for kind in HIST_KINDS:
        for (R, D) in shapes:
            for rep in range(reps):
                out.append({"hist": kind, "R": R, "D": D, "rep": rep,
                            "group": ["hist", kind, R, D], "cost": 3.0})
    return out


def _battery_measure(o, ctx, is_pdf):
    import jax
    x, A, a, B, b, f2, fR, q, dims, W, wb, idx = (ctx[k] for k in (
        "x", "A", "a", "B", "b", "f2", "fR", "q", "dims", "W", "wb", "idx"))
    D = o.D
    res = {
        "evaluate_ln": o.evaluate_ln(x),
        "log_integral": o.log_integral(),
        "integral": o.integral(),
        "E[x]": o.integrate("x"),
        "E[xx']": o.integrate("xx'"),
        "E[(Ax+a)(Bx+b)']": o.integrate("(Ax+a)(Bx+b)'", A_mat=A, a_vec=a, B_mat=B, b_vec=b),
        "E[(Ax+a)'(Bx+b)]": o.integrate("(Ax+a)'(Bx+b)", A_mat=A, a_vec=a, B_mat=A, b_vec=a),
        "E[xb'xx']": o.integrate("xb'xx'", b_vec=J(np.ones(D))),
        "E[x(A'x+a)x']": o.integrate("x(A'x + a)x'", A_mat=J(np.ones((1, D))), a_vec=J(np.ones(1))),
        "E[quartic]": o.integrate("(Ax+a)'(Bx+b)(Cx+c)'(Dx+d)", A_mat=A, a_vec=a, B_mat=A, b_vec=a,
                                  C_mat=B, c_vec=b, D_mat=B, d_vec=b),
        "E[log f]": o.integrate("log u(x)", factor=fR),
        "product": o.product(),
        "product.log_integral": o.product().log_integral(),
        "get_density": o.get_density(),
        "slice": o.slice(idx),
        "multiply": o.multiply(f2, update_full=True),
        "multiply.log_integral": o.multiply(f2, update_full=True).log_integral(),
        "hadamard.log_integral": o.hadamard(fR, update_full=True).log_integral(),
    }
    if is_pdf:
        res.update({
            "entropy": o.entropy(), "kl(o,q)": o.kl_divergence(q), "kl(q,o)": q.kl_divergence(o),
            "sample": o.sample(jax.random.PRNGKey(3), 4),
            "linear_sum": o.get_density_of_linear_sum(W, wb),
        })
        if D > 1:
            res.update({
                "get_marginal": o.get_marginal(dims),
                "condition_on": o.condition_on(dims[:1]),
                "condition_on_explicit": o.condition_on_explicit(dims[:1], dims[1:]) if D > 2
                else o.condition_on_explicit(IXn([0]), IXn([1])),
                "condition_on.condition_on_x": o.condition_on(dims[:1]).condition_on_x(
                    J(np.ones((2, 1)))),
            })
    return res


def IXn(a):
    return np.asarray(a, dtype=np.int32)


def _battery_cond(c, ctx, kw):
    x, y, yN, p, q, idx = (ctx[k] for k in ("x", "y", "yN", "p", "q", "idx"))
    res = {}
    if kw:
        res["condition_on_x"] = c.condition_on_x_u(x, **kw)
        res["set_control_variable"] = c.set_control_variable(kw["u"])
    else:
        res["condition_on_x"] = c.condition_on_x(x)
        res["get_conditional_mu"] = c.get_conditional_mu(x)
        res["slice"] = c.slice(idx)
    c.set_y(yN, **kw)  # a call with another number of observations first
    res["set_y"] = c.set_y(y, **kw)
    res["set_y.product"] = c.set_y(y, **kw).product()
    for nm in ("affine_joint_transformation", "affine_marginal_transformation",
               "affine_conditional_transformation", "conditional_entropy"):
        res[nm] = getattr(c, nm)(p, **kw)
    if not kw:
        res["mutual_information"] = c.mutual_information(p)
    if c.R == 1 or (hasattr(c, "M") and c.__dict__.get("M") is not None and c.R == q.R):
        res["integrate_log_conditional"] = c.integrate_log_conditional(q, **kw)
    if c.R == 1:
        res["integrate_log_conditional_y"] = c.integrate_log_conditional_y(p, y=y[:p.R], **kw)
    return res


def _battery_approx(c, ctx):
    x, p, q, y = (ctx[k] for k in ("x", "p", "q", "y"))
    res = {"get_conditional_mu": c.get_conditional_mu(x), "condition_on_x": c.condition_on_x(x)}
    for nm in ("affine_joint_transformation", "affine_marginal_transformation",
               "affine_conditional_transformation"):
        res[nm] = getattr(c, nm)(p)
    res["integrate_log_conditional"] = c.integrate_log_conditional(q)
    res["integrate_log_conditional_y"] = c.integrate_log_conditional_y(p, y=y)
    return res


def run_history(cell, rec, seed):
    # one generation regime for every (re)construction inside a history: the hostile-scale switch
    # changes how many random numbers a builder consumes
    with gen.calm():
        return _run_history(cell, rec, seed)


def _run_history(cell, rec, seed):
    from .c12 import params_of, _cmp

    kind, R, D, rep = cell["hist"], cell["R"], cell["D"], cell["rep"]
    L = build.lib()
    info = {"history": kind, "R": R, "D": D, "rep": rep}
    rec.set_ctx(cell=cell)
    key = (seed, "C04hist", kind, R, D, rep)

    def compare(tag, ra, rb, mutation):
        for name in rb:
            if name not in ra:
                continue
            try:
                _cmp(rec, f"{kind}.{name}", params_of(ra[name]), params_of(rb[name]),
                     dict(info, op=name, compared=tag, mutation=mutation),
                     f"history-dependence:{kind}:{mutation}:{name}")
            except Exception as e:
                rec.count("history_compare_error")

    def guarded(fn, what, mutation):
        try:
            return fn()
        except Exception as e:
            rec.evaluations += 1
            rec.fail(f"raises:history:{kind}:{mutation}:{what}:{type(e).__name__}@{core.exc_site(e)}",
                     dict(info, exc=core.exc_info(e)))
            return None

    if kind in ("pdf", "diag_pdf", "measure", "diag_measure"):
        is_pdf = kind.endswith("pdf")
        diag = kind.startswith("diag")
        with gen.calm():
            rng = gen.rng_for(*key)
            _, t = build.mk_measure(kind, rng, R, D, kappa=float(rng.choice(gen.KAPPAS[:4])))
            ctx = {"x": J(gen.points(rng, 3, t.mu, t.Sigma)), "A": J(gen.vec(rng, 2, D)),
                   "a": J(gen.vec(rng, 2)), "B": J(gen.vec(rng, 3, D)), "b": J(gen.vec(rng, 3)),
                   "f2": build.mk_factor("rank1", rng, 2, D)[0],
                   "fR": build.mk_factor("general", rng, R, D)[0],
                   "q": build.mk_pdf(rng, R, D, kappa=10.0, diag=diag)[0],
                   "dims": IXn(rng.permutation(D)[: max(1, D - 1)]),
                   "W": J(gen.lin_map(rng, R, 1, D)), "wb": J(gen.vec(rng, R, 1)),
                   "idx": IXn(rng.integers(0, R, size=2))}
            d_new, td = build.mk_pdf(rng, 1, D, kappa=10.0, scale=2.0, diag=diag)
            i0 = int(rng.integers(0, R))

        def make():
            if is_pdf:
                cls = L.pdf.GaussianDiagPDF if diag else L.pdf.GaussianPDF
                return cls(Sigma=J(t.Sigma), mu=J(t.mu))
            cls = L.measure.GaussianDiagMeasure if diag else L.measure.GaussianMeasure
            return cls(Lambda=J(t.Lambda), nu=J(t.nu), ln_beta=J(t.ln_beta))

        mutations = ["normalize"] + (["update"] if is_pdf else [])
        for mutation in mutations:
            def mutate(o):
                if mutation == "update":
                    o.update(IXn([i0]), d_new)
                else:
                    o.normalize()

            def fresh():
                if mutation == "update":
                    mu2, S2 = t.mu.copy(), t.Sigma.copy()
                    mu2[i0], S2[i0] = td.mu[0], td.Sigma[0]
                    cls = L.pdf.GaussianDiagPDF if diag else L.pdf.GaussianPDF
                    return cls(Sigma=J(S2), mu=J(mu2))
                if is_pdf:
                    return make()
                cls = L.measure.GaussianDiagMeasure if diag else L.measure.GaussianMeasure
                return cls(Lambda=J(t.Lambda), nu=J(t.nu),
                           ln_beta=J(-orc.gauss_lnZ(t.Lambda, t.nu)))

            rec.cell(["history", kind, mutation, R, D], True)
            warm = make()
            if guarded(lambda: _battery_measure(warm, ctx, is_pdf), "battery-before", mutation) is None:
                continue
            guarded(lambda: mutate(warm), "mutate", mutation)
            r_warm = guarded(lambda: _battery_measure(warm, ctx, is_pdf), "battery-after", mutation)
            cold = make()
            guarded(lambda: mutate(cold), "mutate", mutation)
            r_cold = guarded(lambda: _battery_measure(cold, ctx, is_pdf), "battery-cold", mutation)
            r_fresh = guarded(lambda: _battery_measure(fresh(), ctx, is_pdf), "battery-fresh",
                              mutation)
            if r_fresh is None:
                continue
            if r_warm is not None:
                compare("queried-then-mutated vs fresh", r_warm, r_fresh, mutation)
            if r_cold is not None:
                compare("mutated vs fresh", r_cold, r_fresh, mutation)
        return

    if kind.startswith("cond:"):
        ck = kind.split(":")[1]
        C = L.conditional
        with gen.calm():
            rng = gen.rng_for(*key)
            Dx = D
            Dy = D if ck.startswith("identity") else int(rng.integers(1, 4))
            Rc = 1 if ck == "nn" else R
            c0, tc, kw = build.mk_conditional(ck, gen.rng_for(*key, "c"), Rc, Dy, Dx, kappa=10.0)
            isdiag = ck in ("diag", "identity_diag")
            S_big = gen.spd_batch(rng, 1 if ck == "nn" else Rc, Dy, 100.0, diag=isdiag)
            S_base = np.asarray(c0.Sigma, dtype=float)
            S_tiny = S_base * (1.0 + 4e-6)
            N = Rc if Rc > 1 else 3
            ctx = {"x": J(gen.vec(rng, 2, Dx)), "y": J(gen.vec(rng, N, Dy)),
                   "yN": J(gen.vec(rng, N if Rc > 1 else 5, Dy)),
                   "p": build.mk_pdf(rng, 1, Dx, kappa=10.0)[0],
                   "q": build.mk_pdf(rng, Rc if ck in ("full", "diag") else 1, Dy + Dx,
                                     kappa=10.0)[0],
                   "idx": IXn(rng.integers(0, Rc, size=2))}

        def make(Sig=None):
            c, _, _ = build.mk_conditional(ck, gen.rng_for(*key, "c"), Rc, Dy, Dx, kappa=10.0)
            if Sig is not None:
                # a fresh object with the target covariance: same class, same mean parameters
                if ck == "nn":
                    c = C.NNControlGaussianConditional(
                        Sigma=J(Sig), num_cond_dim=Dx, num_control_dim=c.num_control_dim,
                        control_func=c0.control_func)
                elif ck.startswith("identity"):
                    c = type(c)(Sigma=J(Sig))
                else:
                    c = type(c)(M=J(tc.M), b=J(tc.b), Sigma=J(Sig))
            return c

        def make0():
            if ck == "nn":
                return c0 if False else C.NNControlGaussianConditional(
                    Sigma=J(S_base), num_cond_dim=Dx, num_control_dim=c0.num_control_dim,
                    control_func=c0.control_func)
            return make()

        for mutation, S_new in (("update_Sigma", S_big), ("update_Sigma[tiny change]", S_tiny)):
            rec.cell(["history", kind, mutation, R, D], True)
            warm = make0()
            if guarded(lambda: _battery_cond(warm, ctx, kw), "battery-before", mutation) is None:
                continue
            guarded(lambda: warm.update_Sigma(J(S_new)), "mutate", mutation)
            r_warm = guarded(lambda: _battery_cond(warm, ctx, kw), "battery-after", mutation)
            cold = make0()
            guarded(lambda: cold.update_Sigma(J(S_new)), "mutate", mutation)
            r_cold = guarded(lambda: _battery_cond(cold, ctx, kw), "battery-cold", mutation)
            r_fresh = guarded(lambda: _battery_cond(make(S_new), ctx, kw), "battery-fresh", mutation)
            if r_fresh is None:
                continue
            if r_warm is not None:
                compare("queried-then-mutated vs fresh", r_warm, r_fresh, mutation)
            if r_cold is not None:
                compare("mutated vs fresh", r_cold, r_fresh, mutation)
        return

    if kind.startswith("approx:"):
        ak = kind.split(":")[1]
        A_ = L.approx
        with gen.calm():
            rng = gen.rng_for(*key)
            Dx, Dy, Dk = D, 2, max(2, R)
            _, t1 = build.mk_approx(ak, gen.rng_for(*key, "a"), Dy, Dx, Dk, kappa=10.0)
            _, t2 = build.mk_approx(ak, gen.rng_for(*key, "b"), Dy, Dx, Dk, kappa=10.0)
            ctx = {"x": J(gen.vec(rng, 3, Dx)), "p": build.mk_pdf(rng, 1, Dx, kappa=10.0, scale=0.5)[0],
                   "q": build.mk_pdf(rng, 1, Dy + Dx, kappa=10.0, scale=0.5)[0],
                   "y": J(gen.vec(rng, 1, Dy))}

        def make(t, kern=None):
            kern = kern or t
            if ak == "lrbf":
                return A_.LRBFGaussianConditional(M=J(t.M), b=J(t.b), mu=J(kern.centers),
                                                  length_scale=J(kern.length_scale), Sigma=J(t.Sigma))
            return A_.LSEMGaussianConditional(M=J(t.M), b=J(t.b), W=J(kern.W), Sigma=J(t.Sigma))

        def mutate(c):
            # new kernel parameters written in place, then update_phi(), as a learning step does
            if ak == "lrbf":
                c.mu = J(t2.centers)
                c.length_scale = J(t2.length_scale)
            else:
                c.w0 = J(t2.W[:, 0])
                c.W = J(t2.W[:, 1:])
            c.update_phi()

        mutation = "update_phi"
        rec.cell(["history", kind, mutation, R, D], True)
        warm = make(t1)
        if guarded(lambda: _battery_approx(warm, ctx), "battery-before", mutation) is None:
            return
        guarded(lambda: mutate(warm), "mutate", mutation)
        r_warm = guarded(lambda: _battery_approx(warm, ctx), "battery-after", mutation)
        cold = make(t1)
        guarded(lambda: mutate(cold), "mutate", mutation)
        r_cold = guarded(lambda: _battery_approx(cold, ctx), "battery-cold", mutation)
        r_fresh = guarded(lambda: _battery_approx(make(t1, kern=t2), ctx), "battery-fresh", mutation)
        if r_fresh is None:
            return
        if r_warm is not None:
            compare("queried-then-mutated vs fresh", r_warm, r_fresh, mutation)
        if r_cold is not None:
            compare("mutated vs fresh", r_cold, r_fresh, mutation)
