"""C06 - conditioning on coordinates satisfies p(x_a | x_b) p(x_b) = p(x)."""
import itertools

import numpy as np

from .. import build, core, gen
from .. import oracles as orc
from ..gen import J, JI

PROP = "C06"
HOSTILE = ('scale', 'mean', 'special')
MONITORS = ("WF", "DENS", "CACHE", "FORM")
ANCHORS = [("pdf.py", "GaussianPDF.condition_on"), ("pdf.py", "GaussianPDF.condition_on_explicit"),
           ("conditional.py", "ConditionalGaussianPDF.get_conditional_mu"),
           ("conditional.py", "ConditionalGaussianPDF.condition_on_x")]
RULE = ("cell = (full|diag density, R, D, conditioning subset b in arbitrary order; exhaustive over "
        "proper non-empty subsets for D<=4, sampled above; condition_on and condition_on_explicit "
        "with a random ordering of the complement); oracle: product rule with joint and marginal "
        "from NumPy, 4 evaluation points per case; also the library-internal identity with its own "
        "marginal and joint; non-trivial: always (D>=2); distinct = cell tuple incl. the subset")


def cells(tier, seed):
    out = []
    Ds = (2, 3, 4, 5) if tier == "quick" else (2, 3, 4, 5, 6)
    Rs = (1, 3) if tier == "quick" else (1, 2, 4)
    for diag in (False, True):
        for R in Rs:
            for D in Ds:
                out.append({"diag": diag, "R": R, "D": D, "tier": tier, "group": [R, D],
                            "cost": 2 ** D})
    return out


def _call(rec, what, fn, info):
    try:
        return fn()
    except Exception as e:
        rec.evaluations += 1
        rec.fail(f"raises:{what}:{type(e).__name__}@{core.exc_site(e)}",
                 dict(info, exc=core.exc_info(e)))
        return None


def run_cell(cell, rec, seed):
    diag, R, D, tier = cell["diag"], cell["R"], cell["D"], cell.get("tier", "quick")
    rng = gen.rng_for(seed, "C06", diag, R, D)
    kappa = float(rng.choice(gen.KAPPAS))
    p, t = build.mk_pdf(rng, R, D, kappa=kappa, diag=diag)
    subsets = []
    for k in range(1, D):
        cs = list(itertools.combinations(range(D), k))
        if D > 4 or (tier == "quick" and D > 3):
            cs = [cs[i] for i in rng.permutation(len(cs))[:4]]
        subsets += cs
    N = 4
    for sb in subsets:
        b = np.asarray(rng.permutation(sb))
        a = np.array([i for i in range(D) if i not in sb])  # ascending complement
        info = {"diag": diag, "R": R, "D": D, "b": b.tolist(), "kappa": kappa}
        rec.cell(["condition_on", diag, R, D, b.tolist()], True)
        x = gen.points(rng, N, t.mu, t.Sigma)
        xa, xb = x[:, a], x[:, b]
        lj = orc.mvn_logpdf(x, t.mu, t.Sigma)  # R N
        lm = orc.mvn_logpdf(xb, t.mu[:, b], t.Sigma[:, b][:, :, b])
        ref = lj - lm  # ln p(x_a | x_b) at (x_a^n, x_b^n)
        ns = orc.mvn_logpdf_abs(x, t.mu, t.Sigma) + orc.mvn_logpdf_abs(
            xb, t.mu[:, b], t.Sigma[:, b][:, :, b])
        a2 = np.asarray(rng.permutation(a))
        p_full = p
        if rng.random() < 0.3:
            # history: conditioned on the same coordinates while it still was another density,
            # then overwritten in place with update()
            def warm(o):
                o.condition_on(JI(b))
                o.condition_on_explicit(JI(b), JI(a2))
            ph = _call(rec, "pdf_via_update", lambda: build.pdf_via_update(rng, t, diag, warm=warm),
                       info)
            if ph is not None:
                p = ph
                info = dict(info, via_update=True)
        c = _call(rec, "condition_on", lambda: p.condition_on(JI(b)), info)
        variants = [("condition_on", c, a)]
        ce = _call(rec, "condition_on_explicit",
                   lambda: p.condition_on_explicit(JI(b), JI(a2)), info)
        variants.append(("condition_on_explicit", ce, a2))
        for name, cc, aa in variants:
            if cc is None:
                continue
            q = _call(rec, "condition_on_x", lambda: cc.condition_on_x(J(xb)), info)
            if q is None:
                continue
            # components r*N+n ; evaluate component (r,n) at x_a^n
            xa_rep = np.tile(x[:, aa], (R, 1))
            got = _call(rec, "evaluate_ln", lambda: q.evaluate_ln(J(xa_rep), element_wise=True),
                        info)
            if got is not None:
                rec.close(f"{name}: product rule", np.asarray(got).reshape(R, N), ref, ns=ns,
                          detail=info, mech=f"product-rule:{name}")
            # library-internal identity with its own marginal and joint
            m = _call(rec, "get_marginal", lambda: p.get_marginal(JI(b)), info)
            if m is not None and got is not None:
                lhs = np.asarray(got).reshape(R, N) + np.asarray(m.evaluate_ln(J(xb)))
                rec.close(f"{name}: internal identity", lhs, np.asarray(p.evaluate_ln(J(x))),
                          ns=ns, detail=info, mech=f"internal-identity:{name}")
        # same conditional from both entry points when a2 is ascending order
        if c is not None:
            ce2 = _call(rec, "condition_on_explicit",
                        lambda: p.condition_on_explicit(JI(b), JI(a)), info)
            if ce2 is not None:
                for k in ("M", "b", "Sigma", "Lambda", "ln_det_Sigma"):
                    ref_k = np.asarray(getattr(c, k))
                    rec.close(f"explicit == condition_on: {k}", getattr(ce2, k), ref_k,
                              ns=1.0 + np.max(np.abs(ref_k)), detail=info,
                              mech=f"explicit-vs-condition_on:{k}")
    rec.sample({"case": {"diag": diag, "R": R, "D": D}, "mu": t.mu, "Sigma": t.Sigma})
