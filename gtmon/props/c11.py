"""C11 - Bayesian updating is path independent (posterior and evidence)."""
import math

import numpy as np

from .. import build, core, gen
from .. import oracles as orc
from ..gen import J, JI
from . import lincommon as lc

PROP = "C11"
HOSTILE = ("scale", 'special')
MONITORS = ("WF", "DENS", "CACHE", "FORM")
ANCHORS = [("conditional.py", "ConditionalGaussianPDF.set_y"),
           ("factor.py", "ConjugateFactor.product"),
           ("measure.py", "GaussianMeasure.multiply"), ("measure.py", "GaussianMeasure.log_integral"),
           ("measure.py", "GaussianMeasure.get_density"),
           ("conditional.py", "ConditionalGaussianPDF.affine_marginal_transformation"),
           ("conditional.py", "ConditionalGaussianPDF.affine_conditional_transformation"),
           ("conditional.py", "ConditionalGaussianPDF.condition_on_x"),
           ("conditional.py", "ConditionalGaussianPDF.affine_joint_transformation"),
           ("pdf.py", "GaussianPDF.condition_on")]
RULE = ("cell (static): (Dw, Dy, N, observation class) -> recorded history of three routes "
        "(sequential in identity order and k random permutations; joint + condition_on + "
        "condition_on_x; prior x product of set_y factors + get_density), every intermediate posterior "
        "and predictive log-density; offline checker: all posteriors equal each other and the NumPy "
        "posterior of the stacked model, log_integral = sum of sequential predictive log-densities = "
        "log marginal likelihood. cell (state space): (Dz, Dy, T, observation class) Kalman filter "
        "through marginal/conditional transformations against the dense joint over all states and "
        "observations: filtered mean/covariance at every t and accumulated evidence. non-trivial: "
        "N>1 or T>1; distinct = cell tuple")

# (Dw, Dy, N); the last three of the quick list leave directions of w uninformed (N*Dy < Dw)
STATIC_Q = [(1, 1, 1), (2, 1, 3), (1, 2, 2), (3, 2, 4), (2, 2, 3), (2, 3, 2), (3, 1, 1), (4, 1, 2),
            (4, 2, 1)]
STATIC_T = STATIC_Q + [(4, 2, 6), (3, 3, 5), (1, 3, 6), (4, 1, 5), (3, 1, 2), (4, 3, 3), (5, 2, 2)]
ANISO_Q = [(4, 2), (3, 1)]
ANISO_T = ANISO_Q + [(3, 2), (5, 2), (4, 1), (4, 3)]
SSM_Q = [(1, 1, 3), (2, 1, 5), (2, 2, 4), (3, 2, 5)]
SSM_T = SSM_Q + [(1, 2, 8), (2, 1, 12), (3, 2, 12), (3, 3, 8), (2, 2, 10)]


def cells(tier, seed):
    out = []
    reps = 2 if tier == "quick" else 8
    for (Dw, Dy, N) in (STATIC_Q if tier == "quick" else STATIC_T):
        for ok in ("full", "diag", "nn") + (("identity", "identity_diag") if Dw == Dy else ()):
            out.append({"part": "static", "Dw": Dw, "Dy": Dy, "N": N, "ok": ok, "reps": reps,
                        "group": ["s", Dw, Dy], "cost": N})
    for (Dz, Dy, T) in (SSM_Q if tier == "quick" else SSM_T):
        for ok in ("full", "diag") + (("identity",) if Dz == Dy else ()):
            out.append({"part": "ssm", "Dz": Dz, "Dy": Dy, "T": T, "ok": ok, "reps": reps,
                        "group": ["k", Dz, Dy], "cost": T})
    for (Dw, Dy) in (ANISO_Q if tier == "quick" else ANISO_T):
        for ok in ("full", "diag"):
            out.append({"part": "aniso", "Dw": Dw, "Dy": Dy, "ok": ok, "reps": reps,
                        "group": ["a", Dw, Dy], "cost": 4})
    return out


def posterior_mp(mu0, S0, Ms, bs, Ss, ys):
    """stacked linear-Gaussian model in 40-digit arithmetic (mpmath): posterior mean, covariance,
    log marginal likelihood, and the float covariance of the stacked observations. Used so that
    vague priors / uninformed directions (posterior condition numbers up to 1e6) can be judged
    without the oracle's own rounding getting near the tolerance."""
    import mpmath as mp

    mp.mp.dps = 40
    M = mp.matrix(np.concatenate(Ms, axis=0).tolist())
    b = mp.matrix(np.concatenate(bs).tolist())
    y = mp.matrix(np.concatenate(ys).tolist())
    n = M.rows
    Sn = mp.zeros(n, n)
    o = 0
    for S in Ss:
        k = S.shape[0]
        for i in range(k):
            for j in range(k):
                Sn[o + i, o + j] = mp.mpf(float(S[i, j]))
        o += k
    S0m = mp.matrix(S0.tolist())
    m0 = mp.matrix(mu0.tolist())
    Sy = Sn + M * S0m * M.T
    my = M * m0 + b
    Syi = Sy ** -1
    K = S0m * M.T * Syi
    mu = m0 + K * (y - my)
    S = S0m - K * M * S0m
    r = y - my
    lml = -(r.T * Syi * r)[0] / 2 - n * mp.log(2 * mp.pi) / 2 - mp.log(mp.det(Sy)) / 2
    tonp = lambda A: np.array([[float(A[i, j]) for j in range(A.cols)] for i in range(A.rows)])
    Sf = tonp(S)
    return tonp(mu)[:, 0], 0.5 * (Sf + Sf.T), float(lml), tonp(Sy)


def posterior_np(mu0, S0, Ms, bs, Ss, ys):
    """stacked linear-Gaussian model: posterior and log marginal likelihood."""
    M = np.concatenate(Ms, axis=0)
    b = np.concatenate(bs)
    y = np.concatenate(ys)
    Dn = [m.shape[0] for m in Ms]
    Sn = np.zeros((sum(Dn), sum(Dn)))
    o = 0
    for S in Ss:
        k = S.shape[0]
        Sn[o:o + k, o:o + k] = S
        o += k
    Sy = Sn + M @ S0 @ M.T
    Sy = 0.5 * (Sy + Sy.T)
    my = M @ mu0 + b
    K = np.linalg.solve(Sy, M @ S0).T
    mu = mu0 + K @ (y - my)
    S = S0 - K @ M @ S0
    S = 0.5 * (S + S.T)
    lml = orc.mvn_logpdf_elem(y[None], my[None], Sy[None])[0]
    return mu, S, lml, Sy


def mk_obs(kind, rng, Dy, Dw, kappa):
    c, t, kw = build.mk_conditional(kind, rng, 1, Dy, Dw, kappa=kappa)
    return c, t, kw


def run_static(cell, rec, seed):
    Dw, Dy, N, ok = cell["Dw"], cell["Dy"], cell["N"], cell["ok"]
    L = build.lib()
    for rep in range(cell["reps"]):
        rng = gen.rng_for(seed, "C11s", Dw, Dy, N, ok, rep)
        info = {"part": "static", "Dw": Dw, "Dy": Dy, "N": N, "obs_class": ok, "rep": rep}
        for attempt in range(20):
            # a vague prior (variance 1e3 .. 1e5) when the data leave directions of w uninformed:
            # the posterior precision then has eigenvalues of 1e-3 .. 1e-5 in absolute terms
            vague = N * Dy < Dw and rep % 2 == 1
            prior, tp = build.mk_pdf(rng, 1, Dw, kappa=float(rng.choice(gen.KAPPAS[:3])),
                                     scale=(10.0 ** rng.uniform(3, 5)) if vague else None)
            obs = [mk_obs(ok, rng, Dy, Dw, float(rng.choice(gen.KAPPAS[:3]))) for _ in range(N)]
            ys = [gen.vec(rng, Dy, scale=1.5) for _ in range(N)]
            Ms = [t.M[0] for _, t, _ in obs]
            bs = [t.b[0] for _, t, _ in obs]
            Ss = [t.Sigma[0] for _, t, _ in obs]
            mu_ref, S_ref, lml_ref, Sy = posterior_mp(tp.mu[0], tp.Sigma[0], Ms, bs, Ss, ys)
            if gen.in_domain(Sy, S_ref, kmax=1e6):
                sy_ok = True
                break
            # precise observations overriding a vague prior (variance ratios of 1e9 and more):
            # the marginal covariance of the stacked observations is ill conditioned although
            # prior, noise and posterior are not. Posterior mean and covariance are judged there
            # (mpmath reference, posterior scale); the evidence, which lives on Sy, is not.
            if gen.in_domain(S_ref, kmax=1e4) and N * Dy >= Dw and attempt % 2 == 0:
                sy_ok = False
                rec.count("precise_data_cells")
                break
            rec.count("out_of_domain")
        else:
            continue
        rec.cell(["static", Dw, Dy, N, ok], N > 1)
        ns_mu = np.max(np.abs(mu_ref)) + np.max(np.abs(tp.mu)) + 1e-3
        ns_S = np.max(np.abs(tp.Sigma)) if sy_ok else np.max(np.abs(S_ref))
        # the log evidence is assembled from natural parameters: ln Z(L_post, nu_post) and the
        # log-constants of prior and likelihood factors, all of which carry large cancelling
        # quadratic terms when scales are extreme: absolute companion of those terms
        L0 = np.abs(orc.inv(tp.Sigma[0]))
        comp = 0.5 * np.abs(tp.mu[0]) @ L0 @ np.abs(tp.mu[0])
        for Mi, bi, Si, yi in zip(Ms, bs, Ss, ys):
            Li = np.abs(orc.inv(Si))
            r_ = np.abs(yi) + np.abs(bi) + np.abs(Mi) @ (np.abs(mu_ref) + np.abs(tp.mu[0]))
            comp += 0.5 * r_ @ Li @ r_ + 0.5 * abs(orc.slogdet(Si))
        comp += 0.5 * abs(orc.slogdet(tp.Sigma[0])) + 0.5 * abs(orc.slogdet(S_ref))
        ns_l = 1.0 + abs(lml_ref) + N * Dy * orc.LN2PI + comp
        history = {"orders": [], "posteriors": []}
        # ---- route (a): sequential, identity order + random permutations
        orders = [list(range(N))] + [list(rng.permutation(N)) for _ in range(2 if N > 1 else 0)]
        for order in orders:
            p = prior
            lp = 0.0
            okrun = True
            for i in order:
                c, t, kw = obs[i]
                yi = J(ys[i][None])
                py = lc.call(rec, "affine_marginal_transformation",
                             lambda: c.affine_marginal_transformation(p, **kw), info)
                post = lc.call(rec, "affine_conditional_transformation",
                               lambda: c.affine_conditional_transformation(p, **kw), info)
                if py is None or post is None:
                    okrun = False
                    break
                lp += float(np.asarray(py.evaluate_ln(yi))[0, 0])
                p = post.condition_on_x(yi)
            if not okrun:
                continue
            d = dict(info, route="sequential", order=[int(i) for i in order])
            rec.close("sequential posterior mean", p.mu, mu_ref[None], ns=ns_mu, detail=d,
                      mech="route-a-posterior-mu")
            rec.close("sequential posterior covariance", p.Sigma, S_ref[None], ns=ns_S, detail=d,
                      mech="route-a-posterior-Sigma")
            if sy_ok:
                rec.close("sequential evidence", lp, lml_ref, ns=ns_l, detail=d,
                          mech="route-a-evidence")
            history["orders"].append([int(i) for i in order])
        # ---- route (b): joint transformation + coordinate conditioning. The route inverts the
        # joint over (w, y_i) at every step: as in C07 it is judged while those joints have a
        # condition number <= 1e7 (float64 Schur complements lose eps * cond beyond that)
        S_run, joint_cond = tp.Sigma[0], 0.0
        for Mi, Si in zip(Ms, Ss):
            C_ = S_run @ Mi.T
            Sy_ = Mi @ C_ + Si
            joint_cond = max(joint_cond, gen.cond(np.block([[S_run, C_], [C_.T, Sy_]])))
            S_run = S_run - C_ @ np.linalg.solve(Sy_, C_.T)
            S_run = 0.5 * (S_run + S_run.T)
        p = prior
        okrun = joint_cond <= 1e7
        if not okrun:
            rec.count("joint_route_out_of_domain")
        for i in range(N if okrun else 0):
            c, t, kw = obs[i]
            j = lc.call(rec, "affine_joint_transformation",
                        lambda: c.affine_joint_transformation(p, **kw), info)
            if j is None:
                okrun = False
                break
            # the observed block is named in an arbitrary order (values permuted accordingly)
            perm = rng.permutation(Dy)
            cc = lc.call(rec, "condition_on",
                         lambda: j.condition_on(JI(Dw + perm)), info)
            if cc is None:
                okrun = False
                break
            p = cc.condition_on_x(J(ys[i][perm][None]))
        if okrun:
            d = dict(info, route="joint")
            rec.close("joint-route posterior mean", p.mu, mu_ref[None], ns=ns_mu, detail=d,
                      mech="route-b-posterior-mu")
            rec.close("joint-route posterior covariance", p.Sigma, S_ref[None], ns=ns_S, detail=d,
                      mech="route-b-posterior-Sigma")
        # ---- route (c): prior x product of likelihood factors, normalise
        if ok in ("full", "diag"):
            C = L.conditional
            cls = C.ConditionalGaussianPDF if ok == "full" else C.ConditionalGaussianDiagPDF
            cb = cls(M=J(np.stack(Ms)), b=J(np.stack(bs)), Sigma=J(np.stack(Ss)))
            f = lc.call(rec, "set_y", lambda: cb.set_y(J(np.stack(ys))), info)
        elif ok.startswith("identity"):
            C = L.conditional
            cls = C.ConditionalIdentityGaussianPDF if ok == "identity" else \
                C.ConditionalIdentityDiagGaussianPDF
            cb = cls(Sigma=J(np.stack(Ss)))
            f = lc.call(rec, "set_y", lambda: cb.set_y(J(np.stack(ys))), info)
        else:
            f = None  # NN-controlled: one object per control input, route (c) via slices below
        if f is not None:
            fp = lc.call(rec, "product", lambda: f.product(), info)
            if fp is not None:
                u = lc.call(rec, "multiply", lambda: prior.multiply(fp), info)
                if u is not None:
                    d = dict(info, route="factors",
                             expected_offset_from_set_y=N * 0.5 * (Dy - Dw) * math.log(2 * math.pi))
                    li = lc.call(rec, "log_integral", lambda: u.log_integral(), info) if sy_ok \
                        else None
                    if li is not None:
                        d["residual"] = float(np.asarray(li)[0] - lml_ref)
                        d["ns"] = ns_l
                        rec.close("log integral of prior x likelihoods = log marginal likelihood",
                                  li, [lml_ref], ns=ns_l, detail=d, mech="route-c-evidence")
                    dn = lc.call(rec, "get_density", lambda: u.get_density(), info)
                    if dn is not None:
                        rec.close("factor-route posterior mean", dn.mu, mu_ref[None], ns=ns_mu,
                                  detail=d, mech="route-c-posterior-mu")
                        rec.close("factor-route posterior covariance", dn.Sigma, S_ref[None],
                                  ns=ns_S, detail=d, mech="route-c-posterior-Sigma")
        # ---- route (a'): the N observation models as one batch built without an offset (b is
        # optional), sliced one at a time in the sequential loop of the linear-regression example
        if ok in ("full", "diag") and N > 1:
            cb0 = lc.call(rec, "ctor", lambda: cls(M=J(np.stack(Ms)), Sigma=J(np.stack(Ss))), info)
            mu0_ref, S0_ref, _, _ = posterior_mp(tp.mu[0], tp.Sigma[0], Ms,
                                                 [np.zeros(Dy)] * N, Ss, ys)
            p = prior
            okrun = cb0 is not None
            for i in (list(rng.permutation(N)) if okrun else []):
                ci = lc.call(rec, "slice", lambda: cb0.slice(JI([int(i)])), info)
                post = None if ci is None else lc.call(
                    rec, "affine_conditional_transformation",
                    lambda: ci.affine_conditional_transformation(p), info)
                if post is None:
                    okrun = False
                    break
                p = post.condition_on_x(J(ys[i][None]))
            if okrun:
                d = dict(info, route="sequential over slices of a batch without offset")
                rec.close("sliced-batch posterior mean", p.mu, mu0_ref[None],
                          ns=np.max(np.abs(mu0_ref)) + np.max(np.abs(tp.mu)) + 1e-3, detail=d,
                          mech="route-a-sliced-batch-posterior-mu")
                rec.close("sliced-batch posterior covariance", p.Sigma, S0_ref[None], ns=ns_S,
                          detail=d, mech="route-a-sliced-batch-posterior-Sigma")
        if rep == 0 and N > 1:
            rec.sample({"case": info, "orders": history["orders"], "posterior_mu": mu_ref,
                        "log_marginal_likelihood": lml_ref})


def dense_ssm(m0, P0, A, b, Q, C, d, R, ys):
    """dense joint over x_0..x_T, y_1..y_T. returns filtered (mu_t, P_t) for t=1..T and the
    accumulated evidence ln p(y_1..t) for every t, all by conditioning the dense joint."""
    T = len(ys)
    Dz, Dy = A.shape[0], C.shape[0]
    n = (T + 1) * Dz + T * Dy
    # z = G eps + c with eps = (x0 noise, q_1..q_T, r_1..r_T): build mean and covariance by
    # propagating the linear maps (block by block, no recursion on filtered quantities)
    mean = np.zeros(n)
    cov = np.zeros((n, n))
    # state blocks
    xs_mean = [m0]
    # transfer matrices: x_t = A^t x_0 + sum_k A^(t-k) (b + q_k)
    Apow = [np.eye(Dz)]
    for t in range(1, T + 1):
        Apow.append(A @ Apow[-1])
        xs_mean.append(A @ xs_mean[-1] + b)

    def cov_xx(s, t):
        # Cov(x_s, x_t) = A^s P0 A^t' + sum_{k=1..min(s,t)} A^(s-k) Q A^(t-k)'
        c_ = Apow[s] @ P0 @ Apow[t].T
        for k in range(1, min(s, t) + 1):
            c_ = c_ + Apow[s - k] @ Q @ Apow[t - k].T
        return c_

    ox = lambda t: t * Dz
    oy = lambda t: (T + 1) * Dz + (t - 1) * Dy
    for s in range(T + 1):
        mean[ox(s):ox(s) + Dz] = xs_mean[s]
        for t in range(T + 1):
            cov[ox(s):ox(s) + Dz, ox(t):ox(t) + Dz] = cov_xx(s, t)
    for t in range(1, T + 1):
        mean[oy(t):oy(t) + Dy] = C @ xs_mean[t] + d
        for s in range(T + 1):
            cxy = cov_xx(s, t) @ C.T
            cov[ox(s):ox(s) + Dz, oy(t):oy(t) + Dy] = cxy
            cov[oy(t):oy(t) + Dy, ox(s):ox(s) + Dz] = cxy.T
        for s in range(1, T + 1):
            cyy = C @ cov_xx(s, t) @ C.T + (R if s == t else 0.0)
            cov[oy(s):oy(s) + Dy, oy(t):oy(t) + Dy] = cyy
    cov = 0.5 * (cov + cov.T)
    out = []
    yall = np.concatenate(ys)
    for t in range(1, T + 1):
        iy = np.arange(oy(1), oy(t) + Dy)
        ixt = np.arange(ox(t), ox(t) + Dz)
        Syy = cov[np.ix_(iy, iy)]
        m, P = orc.condition(mean, cov, ixt, iy, yall[None, : t * Dy])
        ev = orc.mvn_logpdf_elem(yall[None, : t * Dy], mean[iy][None], Syy[None])[0]
        out.append((m[0], P, ev, gen.cond(Syy)))
    return out


def run_ssm(cell, rec, seed):
    Dz, Dy, T, ok = cell["Dz"], cell["Dy"], cell["T"], cell["ok"]
    L = build.lib()
    C_ = L.conditional
    for rep in range(cell["reps"]):
        rng = gen.rng_for(seed, "C11k", Dz, Dy, T, ok, rep)
        info = {"part": "ssm", "Dz": Dz, "Dy": Dy, "T": T, "obs_class": ok, "rep": rep}
        for attempt in range(30):
            A = gen.lin_map(rng, 1, Dz, Dz, smin=0.3, smax=0.95)[0]
            rho = np.max(np.abs(np.linalg.eigvals(A)))
            if rho > 0.95:
                A = A * 0.9 / rho
            b = gen.vec(rng, Dz, scale=0.5)
            Q = gen.spd(rng, Dz, kappa=float(rng.choice(gen.KAPPAS[:3])), scale=0.5)
            if ok == "identity":
                Cm, d = np.eye(Dy), np.zeros(Dy)
                Rn = gen.spd(rng, Dy, kappa=10.0, scale=0.5)
            else:
                Cm = gen.lin_map(rng, 1, Dy, Dz, special=True)[0]
                d = gen.vec(rng, Dy, scale=0.5)
                Rn = gen.spd(rng, Dy, kappa=10.0, scale=0.5, diag=(ok == "diag"))
            m0 = gen.vec(rng, Dz)
            P0 = gen.spd(rng, Dz, kappa=10.0)
            ys = [gen.vec(rng, Dy, scale=1.5) for _ in range(T)]
            ref = dense_ssm(m0, P0, A, b, Q, Cm, d, Rn, ys)
            if max(r[3] for r in ref) <= gen.KAPPA_MAX and gen.in_domain(
                    np.stack([r[1] for r in ref])):
                break
            rec.count("out_of_domain")
        else:
            continue
        rec.cell(["ssm", Dz, Dy, T, ok], T > 1)
        trans = C_.ConditionalGaussianPDF(M=J(A[None]), b=J(b[None]), Sigma=J(Q[None]))
        if ok == "identity":
            obs = C_.ConditionalIdentityGaussianPDF(Sigma=J(Rn[None]))
        elif ok == "diag":
            obs = C_.ConditionalGaussianDiagPDF(M=J(Cm[None]), b=J(d[None]), Sigma=J(Rn[None]))
        else:
            obs = C_.ConditionalGaussianPDF(M=J(Cm[None]), b=J(d[None]), Sigma=J(Rn[None]))
        p = L.pdf.GaussianPDF(Sigma=J(P0[None]), mu=J(m0[None]))
        ll = 0.0
        for t in range(1, T + 1):
            yt = J(ys[t - 1][None])
            pred = lc.call(rec, "predict", lambda: trans.affine_marginal_transformation(p), info)
            if pred is None:
                break
            py = lc.call(rec, "obs marginal", lambda: obs.affine_marginal_transformation(pred),
                         info)
            post = lc.call(rec, "obs posterior",
                           lambda: obs.affine_conditional_transformation(pred), info)
            if py is None or post is None:
                break
            ll += float(np.asarray(py.evaluate_ln(yt))[0, 0])
            p = post.condition_on_x(yt)
            m_ref, P_ref, ev_ref, _ = ref[t - 1]
            dd = dict(info, t=t)
            rec.close("filtered mean", p.mu, m_ref[None], ns=np.max(np.abs(m_ref)) + 1.0,
                      detail=dd, mech="kalman-mean")
            rec.close("filtered covariance", p.Sigma, P_ref[None], ns=np.max(np.abs(P0)) + np.max(
                np.abs(Q)), detail=dd, mech="kalman-covariance")
            rec.close("accumulated evidence", ll, ev_ref, ns=1.0 + abs(ev_ref) + t * Dy * orc.LN2PI,
                      detail=dd, mech="kalman-evidence")
        if rep == 0:
            rec.sample({"case": info, "A": A, "Q": Q, "C": Cm, "R": Rn,
                        "final_evidence": ref[-1][2]})


def run_aniso(cell, rec, seed):
    """Anisotropic vague prior, precise partial observations (Dy < Dw), several sequential
    updates: a few coordinates of w have a prior variance 1e9 .. 1e10 times the noise variance,
    the others 1e3 .. 4e3 times less (prior condition number < 1e4). The first observations pin
    blocks of coordinates one after the other, later ones are dense. After every direction has
    been observed the posterior lives on the noise scale, so an absolute error of
    eps * |prior covariance| left behind by a covariance-form (Kalman gain) update of an earlier
    step is 1e-7 relative. All routes must agree with the 40-digit reference at posterior scale
    whatever the order of the updates."""
    Dw, Dy, ok = cell["Dw"], cell["Dy"], cell["ok"]
    L = build.lib()
    C = L.conditional
    cls = C.ConditionalGaussianPDF if ok == "full" else C.ConditionalGaussianDiagPDF
    nblk = -(-Dw // Dy)
    N = nblk + 1
    for rep in range(cell["reps"]):
        rng = gen.rng_for(seed, "C11a", Dw, Dy, ok, rep)
        info = {"part": "aniso", "Dw": Dw, "Dy": Dy, "N": N, "obs_class": ok, "rep": rep}
        for attempt in range(20):
            big = 10.0 ** rng.uniform(5.0, 5.7)
            small = big / rng.uniform(1e3, 4e3)
            nbig = int(rng.integers(1, Dw))
            var = np.array([big] * nbig + [small] * (Dw - nbig))
            A_ = rng.uniform(-0.25, 0.25, (Dw, Dw)) / Dw
            Cm = np.eye(Dw) + A_ + A_.T
            np.fill_diagonal(Cm, 1.0)
            S0 = Cm * np.outer(np.sqrt(var), np.sqrt(var))
            S0 = 0.5 * (S0 + S0.T)
            noise = 10.0 ** rng.uniform(-4.3, -3.7)
            Ss = [noise * gen.spd(rng, Dy, kappa=float(rng.choice([1.0, 10.0])), scale=1.0,
                                  diag=(ok == "diag")) for _ in range(N)]
            Ms = []
            for i in range(N):
                if i < nblk:
                    M = np.zeros((Dy, Dw))
                    for a in range(Dy):
                        M[a, (i * Dy + a) % Dw] = 1.0
                else:
                    M = rng.standard_normal((Dy, Dw))
                Ms.append(M)
            bs = [0.1 * rng.standard_normal(Dy) for _ in range(N)]
            m0 = rng.standard_normal(Dw)
            if not (gen.in_domain(S0, kmax=1e4) and all(gen.in_domain(S, kmax=1e4) for S in Ss)):
                rec.count("out_of_domain")
                continue
            w = m0 + 1e-3 * np.linalg.cholesky(S0) @ rng.standard_normal(Dw)
            ys = [Ms[i] @ w + bs[i] + np.linalg.cholesky(Ss[i]) @ rng.standard_normal(Dy)
                  for i in range(N)]
            mu_ref, S_ref, _, _ = posterior_mp(m0, S0, Ms, bs, Ss, ys)
            if gen.in_domain(S_ref, kmax=1e4):
                break
            rec.count("out_of_domain")
        else:
            continue
        rec.cell(["aniso", Dw, Dy, ok], True)
        rec.count("anisotropic_vague_prior_cells")
        info["variance_ratio_prior_to_noise"] = float(big / noise)
        ns_mu = np.max(np.abs(mu_ref)) + 1e-3
        ns_S = np.max(np.abs(S_ref))
        prior = L.pdf.GaussianPDF(Sigma=J(S0[None]), mu=J(m0[None]))
        cb = cls(M=J(np.stack(Ms)), b=J(np.stack(bs)), Sigma=J(np.stack(Ss)))
        orders = [list(range(N)), list(range(nblk))[::-1] + [N - 1]] + \
            [list(rng.permutation(nblk)) + [N - 1] for _ in range(2)] + [list(rng.permutation(N))]
        for order in orders:
            # every intermediate posterior is an *input* of the next update: it has to be in the
            # domain too. Its plain condition number is 1e6 .. 1e10 here by construction (pinned
            # next to vague coordinates); what float64 factorisations are sensitive to is the
            # condition number after diagonal equilibration (van der Sluis), so orders are judged
            # while that stays <= 1e4 - a dense observation of a still vague prior leaves tight
            # directions that are not axis aligned, and is skipped
            dom = True
            for k in range(1, N):
                pre = order[:k]
                _, S_k, _, _ = posterior_mp(m0, S0, [Ms[i] for i in pre], [bs[i] for i in pre],
                                            [Ss[i] for i in pre], [ys[i] for i in pre])
                dd = np.sqrt(np.abs(np.diag(S_k)))
                if not gen.in_domain(S_k / np.outer(dd, dd), kmax=1e4):
                    dom = False
                    break
            if not dom:
                rec.count("aniso_order_with_ill_scaled_intermediate_skipped")
                continue
            rec.count("aniso_orders_judged")
            p = prior
            okrun = True
            for i in order:
                ci = lc.call(rec, "slice", lambda: cb.slice(JI([int(i)])), info)
                post = None if ci is None else lc.call(
                    rec, "affine_conditional_transformation",
                    lambda: ci.affine_conditional_transformation(p), info)
                if post is None:
                    okrun = False
                    break
                p = post.condition_on_x(J(ys[i][None]))
            if not okrun:
                continue
            d = dict(info, route="sequential", order=[int(i) for i in order])
            rec.close("sequential posterior mean (anisotropic vague prior)", p.mu, mu_ref[None],
                      ns=ns_mu, detail=d, mech="route-a-posterior-mu:anisotropic-vague-prior")
            rec.close("sequential posterior covariance (anisotropic vague prior)", p.Sigma,
                      S_ref[None], ns=ns_S, detail=d,
                      mech="route-a-posterior-Sigma:anisotropic-vague-prior")
            # precision and covariance of the filtered density must still describe one Gaussian
            rec.close("filtered precision x covariance = I (anisotropic vague prior)",
                      np.asarray(p.Lambda)[0] @ np.asarray(p.Sigma)[0], np.eye(Dw), ns=1.0,
                      detail=d, mech="route-a-posterior-coherence:anisotropic-vague-prior")
        f = lc.call(rec, "set_y", lambda: cb.set_y(J(np.stack(ys))), info)
        fp = None if f is None else lc.call(rec, "product", lambda: f.product(), info)
        u = None if fp is None else lc.call(rec, "multiply", lambda: prior.multiply(fp), info)
        dn = None if u is None else lc.call(rec, "get_density", lambda: u.get_density(), info)
        if dn is not None:
            d = dict(info, route="factors")
            rec.close("factor-route posterior mean (anisotropic vague prior)", dn.mu, mu_ref[None],
                      ns=ns_mu, detail=d, mech="route-c-posterior-mu:anisotropic-vague-prior")
            rec.close("factor-route posterior covariance (anisotropic vague prior)", dn.Sigma,
                      S_ref[None], ns=ns_S, detail=d,
                      mech="route-c-posterior-Sigma:anisotropic-vague-prior")


def run_cell(cell, rec, seed):
    {"static": run_static, "ssm": run_ssm, "aniso": run_aniso}[cell["part"]](cell, rec, seed)


def classify(mech, d):
    """evidence of route (c) off by exactly N (Dy-Dw)/2 ln 2pi: consequence of the known set_y
    normaliser defect (F04); any other residual is a different violation."""
    if mech == "route-c-evidence" and "residual" in d:
        exp = d.get("expected_offset_from_set_y", 0.0)
        if d.get("Dw") != d.get("Dy") and d.get("obs_class") in ("full", "diag") and \
                abs(d["residual"] - exp) <= 1e-8 * d.get("ns", 1.0):
            return "route-c-evidence-offset-from-set_y-normaliser"
    return mech
