"""C01 - multiplying a measure by a conjugate factor is pointwise multiplication."""
import numpy as np

from .. import build, core, gen
from .. import oracles as orc
from ..gen import J

PROP = "C01"
HOSTILE = ('scale', 'special')
MONITORS = ("WF", "SPEC", "FORM")
REQUIRED_MONITORS = ("WF",)
ANCHORS = [("factor.py", "ConjugateFactor._multiply_with_measure"),
           ("factor.py", "ConjugateFactor._hadamard_with_measure"),
           ("factor.py", "OneRankFactor._multiply_with_measure"),
           ("factor.py", "OneRankFactor._hadamard_with_measure"),
           ("factor.py", "LinearFactor._multiply_with_measure"),
           ("factor.py", "LinearFactor._hadamard_with_measure"),
           ("factor.py", "ConstantFactor._multiply_with_measure"),
           ("factor.py", "ConstantFactor._hadamard_with_measure"),
           ("measure.py", "GaussianMeasure.__mul__"), ("measure.py", "GaussianMeasure.multiply"),
           ("measure.py", "GaussianMeasure.hadamard"), ("measure.py", "GaussianMeasure.product"),
           ("factor.py", "ConjugateFactor.product"), ("factor.py", "ConjugateFactor.evaluate_ln"),
           ("measure.py", "GaussianDiagMeasure.product")]
RULE = ("cell = (measure kind, factor kind, op in {multiply, *, hadamard, product}, update_full, "
        "cache state, R1, R2, D); full cross product over the catalogue, values seeded per cell; "
        "non-trivial: R1*R2 > 1 or D > 1; each evaluation compares evaluate_ln of the result at 6 "
        "points (incl. far and zero) with ln u_i(x) + ln f_j(x) from the generator's parameters")

LAYOUTS_Q = [(1, 1), (1, 3), (3, 1), (2, 3), (3, 3), (5, 2)]
LAYOUTS_T = LAYOUTS_Q + [(1, 6), (5, 1), (4, 2), (6, 6), (2, 2)]


def cells(tier, seed):
    Ds = (1, 2, 3, 5) if tier == "quick" else (1, 2, 3, 4, 5, 6)
    lay = LAYOUTS_Q if tier == "quick" else LAYOUTS_T
    reps = 1 if tier == "quick" else 3
    out = []
    for mk in build.MEASURE_KINDS:
        for (R1, R2) in lay:
            for D in Ds:
                out.append({"mk": mk, "R1": R1, "R2": R2, "D": D, "reps": reps,
                            "group": [R1, R2, D], "cost": 1.0})
    return out


def _snap(o):
    return {k: np.asarray(v).copy() for k, v in o.__dict__.items()
            if k in ("Lambda", "nu", "ln_beta", "v", "g") and v is not None}


def _same(a, b):
    return all(np.array_equal(a[k], b[k]) for k in a)


def _call(rec, what, fn, info):
    try:
        return fn()
    except Exception as e:
        rec.evaluations += 1
        rec.fail(f"raises:{what}:{type(e).__name__}@{core.exc_site(e)}",
                 dict(info, exc=core.exc_info(e)))
        return None


def run_cell(cell, rec, seed):
    mk, R1, R2, D = cell["mk"], cell["R1"], cell["R2"], cell["D"]
    N = 6
    for rep in range(cell.get("reps", 1)):
        # the order in which the factor kinds meet a given shape is part of the history (a
        # process-wide memo poisoned by one kind only shows for the kinds that come after it)
        kinds = list(build.FACTOR_KINDS)
        gen.rng_for(seed, "C01-order", mk, R1, R2, D, rep).shuffle(kinds)
        for fk in kinds:
            for uf in (False, True):
                for cache in ("none", "filled"):
                    if mk.endswith("pdf") and cache == "none":
                        continue  # densities always carry their covariance
                    rng = gen.rng_for(seed, "C01", mk, fk, uf, cache, R1, R2, D, rep)
                    kappa = float(rng.choice(gen.KAPPAS))
                    u, tu = build.mk_measure(mk, rng, R1, D, kappa=kappa)
                    f, tf = build.mk_factor(fk, rng, R2, D, kappa=float(rng.choice(gen.KAPPAS)))
                    if cache == "filled" and not mk.endswith("pdf"):
                        u.integrate()
                    x = gen.points(rng, N, tu.mu, tu.Sigma)
                    xj = J(x)
                    lu = orc.factor_ln(tu.Lambda, tu.nu, tu.ln_beta, x)
                    lf = orc.factor_ln(tf.Lambda, tf.nu, tf.ln_beta, x)
                    au = orc.factor_ln_abs(tu.Lambda, tu.nu, tu.ln_beta, x)
                    af = orc.factor_ln_abs(tf.Lambda, tf.nu, tf.ln_beta, x)
                    su, sf = _snap(u), _snap(f)
                    info = {"mk": mk, "fk": fk, "update_full": uf, "cache": cache,
                            "R1": R1, "R2": R2, "D": D, "kappa": kappa}
                    nontriv = (R1 * R2 > 1) or D > 1
                    base = [mk, fk, uf, cache, R1, R2, D]
                    # ---- multiply (outer layout i*R2+j)
                    ref = (lu[:, None] + lf[None]).reshape(R1 * R2, N)
                    ns = (au[:, None] + af[None]).reshape(R1 * R2, N)
                    r = _call(rec, "multiply", lambda: u.multiply(f, update_full=uf), info)
                    if r is not None:
                        rec.cell(["multiply"] + base, nontriv)
                        got = _call(rec, "evaluate_ln", lambda: r.evaluate_ln(xj), info)
                        if got is not None:
                            rec.close("multiply", got, ref, ns=ns, detail=info,
                                      mech=f"multiply-value:{fk}")
                            g2 = _call(rec, "__call__", lambda: r(xj), info)
                            if g2 is not None:
                                rec.close("call", g2, np.exp(ref), ns=np.exp(ref) * ns + 1e-280,
                                          detail=info, mech=f"call-value:{fk}")
                        # product() of the result: product over all components
                        pr = _call(rec, "product", lambda: r.product(), info)
                        if pr is not None:
                            rec.cell(["product"] + base, nontriv)
                            gp = _call(rec, "evaluate_ln", lambda: pr.evaluate_ln(xj), info)
                            if gp is not None:
                                rec.close("product", gp, ref.sum(0, keepdims=True),
                                          ns=ns.sum(0, keepdims=True), detail=info,
                                          mech=f"product-value:{fk}")
                    if not uf:
                        r = _call(rec, "__mul__", lambda: u * f, info)
                        if r is not None:
                            rec.cell(["*"] + base, nontriv)
                            got = _call(rec, "evaluate_ln", lambda: r.evaluate_ln(xj), info)
                            if got is not None:
                                rec.close("mul", got, ref, ns=ns, detail=info,
                                          mech=f"mul-value:{fk}")
                    # ---- product() of the factor operand itself
                    pf = _call(rec, "factor.product", lambda: f.product(), info)
                    if pf is not None:
                        gp = _call(rec, "evaluate_ln", lambda: pf.evaluate_ln(xj), info)
                        if gp is not None:
                            rec.close("factor.product", gp, lf.sum(0, keepdims=True),
                                      ns=af.sum(0, keepdims=True), detail=info,
                                      mech=f"factor-product-value:{fk}")
                    # ---- hadamard (component-wise, single-component operand broadcast)
                    if R1 == R2 or R1 == 1 or R2 == 1:
                        Rh = max(R1, R2)
                        refh = np.broadcast_to(lu, (Rh, N)) + np.broadcast_to(lf, (Rh, N))
                        nsh = np.broadcast_to(au, (Rh, N)) + np.broadcast_to(af, (Rh, N))
                        r = _call(rec, "hadamard", lambda: u.hadamard(f, update_full=uf), info)
                        if r is not None:
                            rec.cell(["hadamard"] + base, nontriv)
                            got = _call(rec, "evaluate_ln", lambda: r.evaluate_ln(xj), info)
                            if got is not None:
                                rec.close("hadamard", got, refh, ns=nsh, detail=info,
                                          mech=f"hadamard-value:{fk}")
                    # ---- product() of the measure operand itself (own override for diagonal
                    # measures; with a filled cache the result is prepared for integration)
                    if fk == "general" and not uf:
                        pu = _call(rec, "measure.product", lambda: u.product(), info)
                        if pu is not None:
                            rec.cell(["measure.product"] + base, nontriv)
                            gp = _call(rec, "evaluate_ln", lambda: pu.evaluate_ln(xj), info)
                            if gp is not None:
                                rec.close("measure.product", gp, lu.sum(0, keepdims=True),
                                          ns=au.sum(0, keepdims=True), detail=info,
                                          mech=f"measure-product-value:{mk}")
                        # history: product() once more after the measure was normalised in place
                        # (only ln_beta changes): must be the product of the normalised components
                        if cache == "filled" and not mk.endswith("pdf"):
                            L_ = build.lib()
                            cls_ = L_.measure.GaussianDiagMeasure if mk.startswith("diag") \
                                else L_.measure.GaussianMeasure
                            un = cls_(Lambda=J(tu.Lambda), nu=J(tu.nu), ln_beta=J(tu.ln_beta))
                            un.integrate()
                            _call(rec, "measure.product", lambda: un.product(), info)
                            _call(rec, "normalize", lambda: un.normalize(), info)
                            pn = _call(rec, "measure.product", lambda: un.product(), info)
                            if pn is not None:
                                lbn = -orc.gauss_lnZ(tu.Lambda, tu.nu)
                                ln_n = orc.factor_ln(tu.Lambda, tu.nu, lbn, x)
                                gpn = _call(rec, "evaluate_ln", lambda: pn.evaluate_ln(xj), info)
                                if gpn is not None:
                                    rec.close("product after normalize", gpn,
                                              ln_n.sum(0, keepdims=True),
                                              ns=orc.factor_ln_abs(tu.Lambda, tu.nu, lbn, x).sum(
                                                  0, keepdims=True), detail=info,
                                              mech=f"measure-product-after-normalize:{mk}")
                        # element-wise evaluation: component r at point r
                        xe = gen.points(rng, R1, tu.mu, tu.Sigma, far=False)
                        ge = _call(rec, "evaluate_ln[element_wise]",
                                   lambda: u.evaluate_ln(J(xe), element_wise=True), info)
                        if ge is not None:
                            le = np.diag(orc.factor_ln(tu.Lambda, tu.nu, tu.ln_beta, xe))
                            rec.close("element-wise evaluation", ge, le, ns=np.diag(
                                orc.factor_ln_abs(tu.Lambda, tu.nu, tu.ln_beta, xe)), detail=info,
                                mech="element-wise-value")
                            ge2 = _call(rec, "__call__[element_wise]",
                                        lambda: u(J(xe), element_wise=True), info)
                            if ge2 is not None:
                                rec.close("element-wise call", ge2, np.exp(le),
                                          ns=np.exp(le) * np.diag(orc.factor_ln_abs(
                                              tu.Lambda, tu.nu, tu.ln_beta, xe)) + 1e-280,
                                          detail=info, mech="element-wise-value")
                    # ---- operands unchanged (bit-identical defining parameters)
                    rec.true("operands-unchanged", _same(su, _snap(u)) and _same(sf, _snap(f)),
                             mech=f"operand-changed:{fk}", detail=info)
                    if rep == 0 and fk == "rank1" and uf and cache == "filled":
                        rec.sample({"case": info, "x": x, "ln_u": lu, "ln_f": lf})
