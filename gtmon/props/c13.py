"""C13 - entropy, KL divergence, conditional entropy and mutual information."""
import numpy as np

from .. import build, core, gen
from .. import oracles as orc
from ..gen import J, JI
from . import lincommon as lc

PROP = "C13"
HOSTILE = ('scale', 'mean', 'special')
MONITORS = ("WF", "DENS", "FORM")
ANCHORS = [("pdf.py", "GaussianPDF.entropy"), ("pdf.py", "GaussianPDF.kl_divergence"),
           ("conditional.py", "ConditionalGaussianPDF.conditional_entropy"),
           ("conditional.py", "ConditionalGaussianPDF.mutual_information"),
           ("conditional.py", "NNControlGaussianConditional.conditional_entropy"),
           ("conditional.py", "ConditionalIdentityGaussianPDF.conditional_entropy"),
           ("conditional.py", "ConditionalIdentityGaussianPDF.mutual_information")]
RULE = ("cells: (a) densities (full|diag, R, D): entropy against the eigenvalue form and against "
        "-integrate('log u(x)', factor=p); KL against solve/slogdet closed form and against the "
        "expectation form E_p[ln p - ln q] via integrate('log u(x)'); KL>=0, KL(p,p)=0, KL>0 for "
        "perturbed copies, R=1 against R=n on either side; (b) conditionals (5 linear classes, "
        "(Dx,Dy), three batch layouts, M=0 included): conditional entropy = 1/2 ln det 2 pi e "
        "Sigma_{y|x} = -integrate_log_conditional(joint); I = 1/2 (ln det Sigma_y - ln det "
        "Sigma_{y|x}) >= 0, = 0 at M = 0, > 0 otherwise, symmetric under the conditional "
        "transformation; non-trivial: D>1 or R>1; distinct = cell tuple")


def cells(tier, seed):
    out = []
    Ds = (1, 2, 3, 5) if tier == "quick" else (1, 2, 3, 4, 5, 6)
    Rs = (1, 3) if tier == "quick" else (1, 2, 4)
    reps = 2 if tier == "quick" else 10
    for diag in (False, True):
        for R in Rs:
            for D in Ds:
                out.append({"part": "pdf", "diag": diag, "R": R, "D": D, "reps": reps,
                            "group": ["p", R, D], "cost": 1.0})
    for c in lc.cells(tier, "C13"):
        c["part"] = "cond"
        out.append(c)
        if c["Rc"] == 1 and c["Rx"] == 1 and not c["ck"].startswith("identity"):
            z = dict(c)
            z["zero_M"] = True
            out.append(z)
    # determinants outside the float64 range (|ln det| > 745) although every log-determinant is
    # an ordinary number: moderate dimension times an extreme (but uniform) scale
    for ck in ("full", "diag"):
        for (Dx, Dy) in ((26, 24), (24, 24)):
            for s in (1e-14, 1e14):
                out.append({"part": "range", "ck": ck, "Dx": Dx, "Dy": Dy, "scale": s, "reps": 1,
                            "group": ["range", Dx, Dy], "cost": 3.0})
    return out


def run_pdf(cell, rec, seed):
    diag, R, D = cell["diag"], cell["R"], cell["D"]
    for rep in range(cell["reps"]):
        rng = gen.rng_for(seed, "C13p", diag, R, D, rep)
        kp, kq = float(rng.choice(gen.KAPPAS)), float(rng.choice(gen.KAPPAS))
        p, tp = build.mk_pdf(rng, R, D, kappa=kp, diag=diag)
        q, tq = build.mk_pdf(rng, R, D, kappa=kq, diag=diag)
        q1, tq1 = build.mk_pdf(rng, 1, D, kappa=kq, diag=diag)
        # the second argument may be of the other class (diagonal vs full)
        qx, tqx = build.mk_pdf(rng, R, D, kappa=kq, diag=not diag)
        info = {"part": "pdf", "diag": diag, "R": R, "D": D, "kappa_p": kp, "kappa_q": kq}
        rec.cell(["pdf", diag, R, D], R > 1 or D > 1)
        H = orc.entropy(tp.Sigma)
        nsH = 1.0 + np.abs(H) + D * (1 + orc.LN2PI) + np.abs(orc.slogdet(tp.Sigma))
        got = lc.call(rec, "entropy", lambda: p.entropy(), info)
        if got is not None:
            rec.close("entropy", got, H, ns=nsH, detail=info, mech="entropy-value")
            e2 = lc.call(rec, "integrate(log u)", lambda: p.integrate("log u(x)", factor=p), info)
            if e2 is not None:
                # natural scale of E[ln p]: expectation of the absolute terms of the exponent
                ns2 = nsH + np.einsum("rd,rde,re->r", np.abs(tp.mu), np.abs(tp.Lambda),
                                      np.abs(tp.mu)) * 2 + np.abs(tp.ln_beta)
                rec.close("entropy = -E[ln p]", -np.asarray(e2), H, ns=ns2, detail=info,
                          mech="entropy-vs-expectation")
        for name, qq, tqq, Rres in (("kl[R,R]", q, tq, R), ("kl[R,1]", q1, tq1, R),
                                    ("kl[R,R;other class]", qx, tqx, R)):
            ref = orc.kl(tp.mu, tp.Sigma, tqq.mu, tqq.Sigma)
            # natural scale: sum of absolute terms
            A = np.abs(np.linalg.solve(np.broadcast_to(tqq.Sigma, (R, D, D)), tp.Sigma))
            dm = np.abs(tqq.mu) + np.abs(tp.mu)
            Lq = np.abs(orc.inv(np.broadcast_to(tqq.Sigma, (R, D, D))))
            ns = 1.0 + 0.5 * (np.trace(A, axis1=1, axis2=2) + np.einsum("rd,rde,re->r", dm, Lq, dm)
                              + D + np.abs(orc.slogdet(tqq.Sigma)) + np.abs(orc.slogdet(tp.Sigma)))
            got = lc.call(rec, name, lambda: p.kl_divergence(qq), info)
            if got is not None:
                rec.close(name, got, ref, ns=ns, detail=info, mech=f"kl-value:{name}")
                rec.leq(f"{name} >= 0", -np.asarray(got), 0.0, allow=1e-8 * np.max(ns),
                        detail=info, mech="kl-negative")
                # expectation form through the library's own expected log factors
                ep = lc.call(rec, "E_p ln p", lambda: p.integrate("log u(x)", factor=p), info)
                eq = lc.call(rec, "E_p ln q", lambda: p.integrate("log u(x)", factor=qq), info)
                if ep is not None and eq is not None:
                    # both expectations are assembled from natural parameters: E[xx'] against
                    # Lambda, nu'mu and ln_beta each carry |mu|'|Lambda||mu| of their own density
                    ns_e = ns * 4 + nsH + 2.0 * np.einsum(
                        "rd,rde,re->r", np.abs(tp.mu), np.abs(tp.Lambda), np.abs(tp.mu)) + np.abs(
                        tp.ln_beta) + np.abs(np.broadcast_to(tqq.ln_beta, (R,)))
                    rec.close(f"{name} = E_p[ln p - ln q]", np.asarray(ep) - np.asarray(eq), ref,
                              ns=ns_e, detail=info, mech=f"kl-vs-expectation:{name}")
        ref = orc.kl(tq1.mu, tq1.Sigma, tp.mu, tp.Sigma)
        got = lc.call(rec, "kl[1,R]", lambda: q1.kl_divergence(p), info)
        if got is not None:
            rec.close("kl[1,R]", got, ref, ns=1.0 + np.abs(ref) * 4 + D + np.abs(
                orc.slogdet(tp.Sigma)) + np.abs(orc.slogdet(tq1.Sigma)) + np.einsum(
                "rd,rde,re->r", np.abs(tq1.mu) + np.abs(tp.mu), np.abs(tp.Lambda),
                np.abs(tq1.mu) + np.abs(tp.mu)), detail=info, mech="kl-value:kl[1,R]")
        got = lc.call(rec, "kl(p,p)", lambda: p.kl_divergence(p), info)
        if got is not None:
            rec.close("kl(p,p) = 0", got, np.zeros(R), ns=nsH, detail=info, mech="kl-self-nonzero")
        # densities far from the origin (means 1e6 sd away): KL only depends on the difference
        # of the means; coinciding densities must still give exactly zero, nearby ones the same
        # value as at the origin
        sd_ = np.sqrt(np.max(np.diagonal(tp.Sigma, axis1=1, axis2=2), axis=1))[:, None]
        shift = 1e6 * sd_ * np.sign(gen.vec(rng, R, D))
        L_ = build.lib()
        pf = L_.pdf.GaussianPDF(Sigma=J(tp.Sigma), mu=J(tp.mu + shift))
        got = lc.call(rec, "kl(p,p) far", lambda: pf.kl_divergence(pf), info)
        if got is not None:
            rec.close("kl(p,p) = 0 far from the origin", got, np.zeros(R), ns=nsH, detail=info,
                      mech="kl-self-nonzero-far-mean")
        pf2 = L_.pdf.GaussianPDF(Sigma=J(tq.Sigma), mu=J((tq.mu + shift)))
        got = lc.call(rec, "kl(p,q) far", lambda: pf.kl_divergence(pf2), info)
        if got is not None:
            # the difference of the two means is formed first in exact arithmetic here:
            # (mu_q + s) - (mu_p + s) as floats
            dm = (tq.mu + shift) - (tp.mu + shift)
            ref_far = orc.kl(np.zeros((R, D)), tp.Sigma, dm, tq.Sigma)
            Lq = np.abs(orc.inv(tq.Sigma))
            ns_far = 1.0 + 0.5 * (np.trace(np.abs(np.linalg.solve(tq.Sigma, tp.Sigma)), axis1=1,
                                           axis2=2) + np.einsum("rd,rde,re->r", np.abs(dm), Lq,
                                                                np.abs(dm)) + D + np.abs(
                orc.slogdet(tq.Sigma)) + np.abs(orc.slogdet(tp.Sigma)))
            rec.close("kl of nearby densities far from the origin", got, ref_far, ns=ns_far,
                      detail=info, mech="kl-value-far-mean")
        # the second density built around the *same* covariance / precision arrays as the first
        # (what p.replace(mu=...) or a shared-parameter model hands over), another mean
        mu_s = tp.mu + gen.vec(rng, R, D, scale=0.7) * np.sqrt(np.max(np.diagonal(
            tp.Sigma, axis1=1, axis2=2), axis=1))[:, None]
        cls_ = type(p)
        q_sh = lc.call(rec, "ctor", lambda: cls_(Sigma=p.Sigma, mu=J(mu_s), Lambda=p.Lambda,
                                                 ln_det_Sigma=p.ln_det_Sigma), info)
        if q_sh is not None:
            got = lc.call(rec, "kl(p, q sharing p's arrays)", lambda: p.kl_divergence(q_sh), info)
            if got is not None:
                ref_s = orc.kl(tp.mu, tp.Sigma, mu_s, tp.Sigma)
                dm_s = np.abs(mu_s) + np.abs(tp.mu)
                ns_s = 1.0 + D + 0.5 * np.einsum("rd,rde,re->r", dm_s, np.abs(tp.Lambda), dm_s) \
                    + np.abs(orc.slogdet(tp.Sigma))
                rec.close("kl of densities sharing their covariance arrays", got, ref_s, ns=ns_s,
                          detail=info, mech="kl-value-shared-arrays")
        # perturbed copy: strictly positive (sampled 'only if' direction)
        mu2 = tp.mu + 0.3
        p2 = build.lib().pdf.GaussianPDF(Sigma=J(tp.Sigma), mu=J(mu2))
        got = lc.call(rec, "kl(p,p+d)", lambda: p.kl_divergence(p2), info)
        if got is not None:
            ref = orc.kl(tp.mu, tp.Sigma, mu2, tp.Sigma)
            rec.true("kl > 0 for different densities", bool(np.all(np.asarray(got) > 0.5 * ref)),
                     mech="kl-not-positive", detail=dict(info, got=np.asarray(got), ref=ref))
        if rep == 0:
            rec.sample({"case": info, "entropy": H})


def run_cond(cell, rec, seed):
    ck, Dx, Dy, Rc, Rx = (cell[k] for k in ("ck", "Dx", "Dy", "Rc", "Rx"))
    zero = bool(cell.get("zero_M"))
    for rep in range(cell["reps"]):
        st = lc.setup(cell, seed, "C13c" + ("z" if zero else ""), rep, zero_M=zero)
        if st is None:
            rec.count("out_of_domain")
            continue
        rng, c, tc, kw, p, tp, tj, info, att = st
        if not zero and "M" in tc and not np.any(tc.M):
            zero = True  # the special-value regime zeroed the only row / column of the map
        info["zero_M"] = zero
        R = Rc * Rx
        rec.cell([ck, Dx, Dy, Rc, Rx, zero], True)
        Hc_ref = orc.entropy(tj.Sigma_c)  # H(Y|X) = 1/2 ln det 2 pi e Sigma_{y|x}
        Hy = orc.entropy(tj.Sigma_y)
        I_ref = Hy - Hc_ref
        ns = 1.0 + np.abs(orc.entropy(tj.Sigma_xy)) + np.abs(orc.entropy(tj.Sigma_x)) + np.abs(Hy) \
            + (Dx + Dy) * (1 + orc.LN2PI)
        ce = lc.call(rec, "conditional_entropy", lambda: c.conditional_entropy(p, **kw), info)
        if ce is not None:
            rec.close("conditional entropy", ce, Hc_ref, ns=ns, detail=info,
                      mech=f"conditional-entropy-value:{ck}")
            # = H(X,Y) - H(X) from the oracle joint as well
            rec.close("conditional entropy = H(X,Y)-H(X)", ce,
                      orc.entropy(tj.Sigma_xy) - orc.entropy(tj.Sigma_x), ns=ns, detail=info,
                      mech=f"conditional-entropy-value:{ck}")
        if ck != "nn":
            mi = lc.call(rec, "mutual_information", lambda: c.mutual_information(p, **kw), info)
            if mi is not None:
                d = dict(info, got=np.asarray(mi), ref=I_ref,
                         sign_flipped=bool(np.allclose(np.asarray(mi), -I_ref, atol=1e-8 * np.max(
                             ns)) and np.max(np.abs(I_ref)) > 1e-6))
                rec.close("mutual information", mi, I_ref, ns=ns, detail=d,
                          mech=f"mutual-information-value:{ck}")
                rec.leq("I >= 0", -np.asarray(mi), 0.0, allow=1e-8 * np.max(ns), detail=d,
                        mech=f"mutual-information-negative:{ck}")
                if zero:
                    rec.close("I = 0 at M = 0", mi, np.zeros(R), ns=ns, detail=d,
                              mech=f"mutual-information-nonzero-at-M0:{ck}")
                else:
                    rec.true("I > 0 when y depends on x",
                             bool(np.all(np.asarray(mi) > 0.5 * I_ref)), detail=d,
                             mech=f"mutual-information-not-positive:{ck}")
                # symmetry: swap roles through the conditional transformation
                post = lc.call(rec, "affine_conditional_transformation",
                               lambda: c.affine_conditional_transformation(p), info)
                py = lc.call(rec, "affine_marginal_transformation",
                             lambda: c.affine_marginal_transformation(p), info)
                if post is not None and py is not None:
                    for r in range(R):
                        mi2 = lc.call(rec, "mutual_information(swapped)",
                                      lambda: post.slice(JI([r])).mutual_information(
                                          py.slice(JI([r]))), info)
                        if mi2 is not None:
                            rec.close("I symmetric under swap", mi2, np.asarray(mi)[r:r + 1],
                                      ns=ns[r], detail=dict(d, component=r),
                                      mech=f"mutual-information-asymmetric:{ck}")
        # conditional entropy = -E[ln p(y|x)] under the joint (y first, then x)
        if ck not in ("nn",) and Rc == 1 and ce is not None:
            L = build.lib()
            perm = np.concatenate([np.arange(Dx, Dx + Dy), np.arange(Dx)])
            S_yx = tj.Sigma_xy[:, perm][:, :, perm]
            m_yx = tj.mu_xy[:, perm]
            pyx = L.pdf.GaussianPDF(Sigma=J(S_yx), mu=J(m_yx))
            e = lc.call(rec, "integrate_log_conditional",
                        lambda: c.integrate_log_conditional(pyx), info)
            if e is not None:
                # natural scale of E[(y-Mx-b)' L (y-Mx-b)]: absolute companion of the residual law
                T = np.concatenate([np.broadcast_to(np.eye(Dy), (R, Dy, Dy)), -tj.M], axis=2)
                absm = np.einsum("rab,rb->ra", np.abs(T), np.abs(m_yx)) + np.abs(tj.b)
                absC = np.einsum("rab,rbc,rdc->rad", np.abs(T), np.abs(S_yx), np.abs(T))
                Lc = np.abs(orc.inv(tj.Sigma_c))
                ns_e = ns + 0.5 * (np.einsum("rab,rab->r", Lc, absC) + np.einsum(
                    "ra,rab,rb->r", absm, Lc, absm))
                rec.close("conditional entropy = -E[ln p(y|x)]", -np.asarray(e), Hc_ref,
                          ns=ns_e, detail=info, mech=f"conditional-entropy-vs-expectation:{ck}")
        if rep == 0 and R > 1:
            rec.sample({"case": info, "H(Y|X)": Hc_ref, "I": I_ref})


def run_range(cell, rec, seed):
    ck, Dx, Dy, s = cell["ck"], cell["Dx"], cell["Dy"], cell["scale"]
    C = build.lib().conditional
    rng = gen.rng_for(seed, "C13r", ck, Dx, Dy, s)
    with gen.calm():
        Sig = gen.spd_batch(rng, 1, Dy, 10.0, scale=s, diag=(ck == "diag"))
        M = gen.lin_map(rng, 1, Dy, Dx, smin=0.3, smax=2.0)
        b = gen.vec(rng, 1, Dy) * np.sqrt(s)
        Sx = gen.spd_batch(rng, 1, Dx, 10.0, scale=s)
        mx = gen.vec(rng, 1, Dx) * np.sqrt(s)
    cls = C.ConditionalGaussianDiagPDF if ck == "diag" else C.ConditionalGaussianPDF
    info = {"part": "range", "ck": ck, "Dx": Dx, "Dy": Dy, "scale": s,
            "ln_det_noise": float(orc.slogdet(Sig)[0]), "ln_det_prior": float(orc.slogdet(Sx)[0])}
    rec.cell(["range", ck, Dx, Dy, s], True)
    c = lc.call(rec, "ctor", lambda: cls(M=J(M), b=J(b), Sigma=J(Sig)), info)
    p = lc.call(rec, "ctor", lambda: build.lib().pdf.GaussianPDF(Sigma=J(Sx), mu=J(mx)), info)
    if c is None or p is None:
        return
    Sy = Sig + np.einsum("rab,rbc,rdc->rad", M, Sx, M)
    Hc, Hy, Hx = orc.entropy(Sig), orc.entropy(Sy), orc.entropy(Sx)
    ns = 1.0 + np.abs(Hc) + np.abs(Hy) + 2 * np.abs(Hx) + (Dx + Dy) * (1 + orc.LN2PI)
    got = lc.call(rec, "entropy", lambda: p.entropy(), info)
    if got is not None:
        rec.close("entropy", got, Hx, ns=ns, detail=info, mech="entropy-value:range")
    ce = lc.call(rec, "conditional_entropy", lambda: c.conditional_entropy(p), info)
    if ce is not None:
        rec.close("conditional entropy", ce, Hc, ns=ns, detail=info,
                  mech=f"conditional-entropy-value:{ck}:range")
    mi = lc.call(rec, "mutual_information", lambda: c.mutual_information(p), info)
    if mi is not None:
        rec.close("mutual information", mi, Hy - Hc, ns=ns, detail=info,
                  mech=f"mutual-information-value:{ck}:range")


def run_cell(cell, rec, seed):
    {"pdf": run_pdf, "cond": run_cond, "range": run_range}[cell["part"]](cell, rec, seed)


def classify(mech, d):
    if mech.startswith(("mutual-information-value:", "mutual-information-negative:",
                        "mutual-information-not-positive:")) and d.get("sign_flipped"):
        return "mutual-information-sign-flipped:" + mech.split(":", 1)[1]
    return mech
