"""Core of the monitor runtime: environment, recorder, tolerances, verdict plumbing.

Nothing in here knows the library's formulas. A property workload talks to the
rest of the machinery only through a `Rec` instance:

    rec.cell(key, nontrivial)        register a covered cell (kind x shape x path flags)
    rec.close(name, got, ref, ...)   equality up to tol_rel * natural scale
    rec.leq(name, a, b, allow)       inequality with an allowance
    rec.fail(mechanism, detail)      report a failing observation with its mechanism signature
    rec.sample(obj)                  keep a concrete case for the evidence file
"""
import json
import math
import os
import sys
import time
import traceback

VERIF = os.path.dirname(os.path.dirname(os.path.abspath(__file__)))
REPO = os.environ.get("GT_REPO", "/repo")
GUARD = "GT_VERIF"

TOL_REL = 1e-8


def setup_env():
    """Must run before jax is imported."""
    os.environ.setdefault(
        "XLA_FLAGS",
        "--xla_cpu_multi_thread_eigen=false intra_op_parallelism_threads=1",
    )
    for k in ("OMP_NUM_THREADS", "OPENBLAS_NUM_THREADS", "MKL_NUM_THREADS"):
        os.environ.setdefault(k, "1")
    os.environ.setdefault("JAX_PLATFORMS", "cpu")
    os.environ[GUARD] = "1"
    deps = os.path.join(VERIF, ".deps")
    if os.path.isdir(deps) and deps not in sys.path:
        sys.path.append(deps)
    if REPO not in sys.path:
        sys.path.insert(0, REPO)
    import warnings

    warnings.filterwarnings("ignore", category=SyntaxWarning)
    warnings.filterwarnings("ignore", category=DeprecationWarning)
    import jax

    # both orders in which a user can do it: double precision switched on before the library is
    # imported, or (as the repository's own tests do) afterwards - module-level constants of the
    # library are evaluated at import time. The shards of one check alternate (GT_IMPORT_ORDER).
    lib_first = os.environ.get("GT_IMPORT_ORDER") == "lib-first"
    if lib_first:
        import gaussian_toolbox  # noqa: F401
        from gaussian_toolbox import (approximate_conditional, conditional, factor,  # noqa: F401
                                      measure, pdf)
        from gaussian_toolbox.experimental import truncated_measure  # noqa: F401
    jax.config.update("jax_enable_x64", True)
    cache = os.path.join(VERIF, ".jaxcache")
    try:
        os.makedirs(cache, exist_ok=True)
        jax.config.update("jax_compilation_cache_dir", cache)
        jax.config.update("jax_persistent_cache_min_compile_time_secs", 0)
        jax.config.update("jax_persistent_cache_min_entry_size_bytes", -1)
    except Exception:
        pass
    import gaussian_toolbox

    src = os.path.dirname(os.path.abspath(gaussian_toolbox.__file__))
    want = os.path.join(os.path.abspath(REPO), "gaussian_toolbox")
    if os.path.realpath(src) != os.path.realpath(want):
        raise RuntimeError(f"gaussian_toolbox imported from {src}, expected {want}")
    return gaussian_toolbox


def to_np(a):
    import numpy as np

    return np.asarray(a, dtype=float)


def _jsonable(o, depth=0):
    import numpy as np

    if o is None or isinstance(o, (bool, int, str)):
        return o
    if isinstance(o, float):
        return o if math.isfinite(o) else repr(o)
    if isinstance(o, (np.integer,)):
        return int(o)
    if isinstance(o, (np.floating,)):
        return _jsonable(float(o))
    if isinstance(o, dict):
        return {str(k): _jsonable(v, depth + 1) for k, v in o.items()}
    if isinstance(o, (list, tuple, set, frozenset)):
        return [_jsonable(v, depth + 1) for v in o]
    try:
        a = np.asarray(o)
        if a.dtype == object:
            return repr(o)
        if a.size > 400:
            return {"shape": list(a.shape), "head": _jsonable(a.ravel()[:40].tolist())}
        return _jsonable(a.tolist())
    except Exception:
        return repr(o)


class Rec:
    """Per-worker recorder. Everything the evidence file reports is counted here."""

    MAX_FAIL_PER_MECH = 3

    def __init__(self, prop):
        self.prop = prop
        self.evaluations = 0  # comparisons against an oracle
        self.cells = {}  # key(str) -> {"nontrivial": bool, "n": int}
        self.fails = {}  # mechanism -> [detail,...]
        self.fail_counts = {}
        self.samples = []
        self.max_ratio = 0.0
        self.max_ratio_at = None
        self.closest = None
        self.ratios = {}  # name -> max err/tol
        self.counters = {}  # free-form integer counters (out_of_domain, oracle_unconverged, ...)
        self.ctx = {}  # current context merged into failure details
        self.classifier = None  # property-specific mechanism classifier (mech, detail) -> mech
        self.notes = []

    # ----- bookkeeping
    def count(self, name, n=1):
        self.counters[name] = self.counters.get(name, 0) + n

    def cell(self, key, nontrivial=True):
        k = key if isinstance(key, str) else json.dumps(_jsonable(key), sort_keys=True)
        c = self.cells.setdefault(k, {"nontrivial": bool(nontrivial), "n": 0})
        c["n"] += 1
        c["nontrivial"] = c["nontrivial"] or bool(nontrivial)
        return k

    def sample(self, obj, limit=4):
        if len(self.samples) < limit:
            self.samples.append(_jsonable(obj))

    def set_ctx(self, **kw):
        self.ctx = dict(kw)

    # ----- verdict primitives
    def fail(self, mechanism, detail=None):
        if self.classifier is not None:
            try:
                mechanism = self.classifier(mechanism, detail or {})
            except Exception:
                pass
        self.fail_counts[mechanism] = self.fail_counts.get(mechanism, 0) + 1
        lst = self.fails.setdefault(mechanism, [])
        if len(lst) < self.MAX_FAIL_PER_MECH:
            d = dict(self.ctx)
            d.update(detail or {})
            lst.append(_jsonable(d))

    def close(self, name, got, ref, ns=None, tol_rel=TOL_REL, mech=None, detail=None,
              exact=False):
        """|got-ref| <= tol_rel*ns entrywise. ns: natural scale (scalar or array)."""
        import numpy as np

        self.evaluations += 1
        try:
            g = np.asarray(got, dtype=float)
            r = np.asarray(ref, dtype=float)
        except Exception as e:  # not array-like
            self.fail(mech or name, {"check": name, "error": f"not comparable: {e!r}"})
            return False
        if g.shape != r.shape:
            try:
                g = np.broadcast_to(g, r.shape) if g.size == r.size or g.ndim < r.ndim else g
                g = g.reshape(r.shape)
            except Exception:
                self.fail(
                    mech or name,
                    {"check": name, "error": "shape", "got_shape": list(g.shape),
                     "ref_shape": list(r.shape)},
                )
                return False
        if not np.all(np.isfinite(r)):
            self.count("oracle_nonfinite")
            return True
        if not np.all(np.isfinite(g)):
            d = {"check": name, "error": "non-finite result", "got": g, "ref": r}
            d.update(detail or {})
            self.fail(mech or name, d)
            return False
        err = np.abs(g - r)
        if exact:
            ok = bool(np.all(err == 0))
            ratio = float(np.max(err)) if err.size else 0.0
            scale = 0.0
        else:
            if ns is None:
                ns = 1.0 + (np.max(np.abs(r)) if r.size else 0.0)
            scale = np.asarray(ns, dtype=float)
            tol = tol_rel * scale
            with np.errstate(divide="ignore", invalid="ignore"):
                q = np.where(tol > 0, err / tol, np.where(err > 0, np.inf, 0.0))
            ratio = float(np.max(q)) if np.size(q) else 0.0
            ok = ratio <= 1.0
            if ok and ratio > self.ratios.get(name, 0.0):
                self.ratios[name] = ratio  # headroom of the comparisons that passed
            if ok and ratio > self.max_ratio:
                self.max_ratio = ratio
                self.max_ratio_at = name
                # the closest call so far, with its context (evidence: where the headroom is thin)
                self.closest = {"check": name, "mechanism": mech or name,
                                "err_over_tol": ratio, "max_abs_err": float(np.max(err)),
                                "detail": {k: v for k, v in (detail or {}).items()
                                           if isinstance(v, (str, int, float, bool, list, tuple))}}
        if not ok:
            d = {
                "check": name,
                "max_abs_err": float(np.max(err)),
                "err_over_tol": ratio,
                "got": g,
                "ref": r,
                "residual": g - r,
            }
            d.update(detail or {})
            self.fail(mech or name, d)
        return ok

    def leq(self, name, a, b, allow=0.0, mech=None, detail=None):
        """a <= b + allow entrywise."""
        import numpy as np

        self.evaluations += 1
        a = np.asarray(a, dtype=float)
        b = np.asarray(b, dtype=float)
        if not (np.all(np.isfinite(a)) and np.all(np.isfinite(b))):
            d = {"check": name, "error": "non-finite", "a": a, "b": b}
            d.update(detail or {})
            self.fail(mech or name, d)
            return False
        ok = bool(np.all(a <= b + allow))
        if not ok:
            d = {"check": name, "a": a, "b": b, "excess": float(np.max(a - b)), "allow": allow}
            d.update(detail or {})
            self.fail(mech or name, d)
        return ok

    def true(self, name, cond, mech=None, detail=None):
        self.evaluations += 1
        if not cond:
            d = {"check": name}
            d.update(detail or {})
            self.fail(mech or name, d)
        return bool(cond)

    # ----- (de)serialisation between worker and runner
    def dump(self):
        return {
            "prop": self.prop,
            "evaluations": self.evaluations,
            "cells": self.cells,
            "fails": self.fails,
            "fail_counts": self.fail_counts,
            "samples": self.samples,
            "max_ratio": self.max_ratio,
            "max_ratio_at": self.max_ratio_at,
            "closest": self.closest,
            "ratios": self.ratios,
            "counters": self.counters,
            "notes": self.notes,
        }


def exc_info(e):
    tb = traceback.extract_tb(e.__traceback__)
    frames = [f"{os.path.basename(f.filename)}:{f.lineno}:{f.name}" for f in tb[-6:]]
    return {"type": type(e).__name__, "msg": str(e)[:300], "frames": frames}


def exc_site(e, within="gaussian_toolbox"):
    """innermost frame inside the library: 'file.py:function' (line numbers left out so
    that a mechanism signature survives unrelated edits)."""
    site = None
    for f in traceback.extract_tb(e.__traceback__):
        if within in f.filename:
            site = f"{os.path.basename(f.filename)}:{f.name}"
    return site


class Timer:
    def __init__(self):
        self.t0 = time.time()

    def s(self):
        return time.time() - self.t0
