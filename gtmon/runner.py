"""Launcher: shards a property's cells over subprocesses, merges what the monitors
observed, matches failures against known_findings.json, writes evidence and replays,
prints the verdict lines and returns the exit code (0 held, 1 violated, 2 inconclusive).
"""
import fnmatch
import importlib
import json
import os
import shutil
import subprocess
import sys
import time

from . import core

NSHARDS = int(os.environ.get("GT_SHARDS", "16"))
TIMEOUT = {"quick": 1500, "thorough": 4 * 3600}


def load_known():
    p = os.path.join(core.VERIF, "known_findings.json")
    if not os.path.exists(p):
        return []
    return json.load(open(p)).get("findings", [])


def match_known(prop, mech, known):
    for k in known:
        if k.get("status") != "known" or k.get("property") != prop:
            continue
        pats = k.get("mechanisms") or [k.get("mechanism")]
        for pat in pats:
            if pat and (mech == pat or fnmatch.fnmatchcase(mech, pat)):
                return k
    return None


def assign(cells, n):
    """cells with the same 'group' go to one shard (compile cache); greedy balance."""
    groups = {}
    for c in cells:
        groups.setdefault(json.dumps(c.get("group", c), sort_keys=True), []).append(c)
    items = sorted(groups.values(), key=lambda g: -sum(c.get("cost", 1.0) for c in g))
    shards = [[] for _ in range(n)]
    load = [0.0] * n
    for g in items:
        i = load.index(min(load))
        shards[i].extend(g)
        load[i] += sum(c.get("cost", 1.0) for c in g)
    return [s for s in shards if s]


def run(prop, tier="quick", seed=0, replay=None, nshards=None, only=None):
    t0 = time.time()
    prop = prop.upper()
    mod = importlib.import_module(f"gtmon.props.{prop.lower()}")
    if replay:
        rp = json.load(open(replay))
        cells = [rp["cell"]]
        seed = rp.get("seed", seed)
        tier = rp.get("tier", tier)
    else:
        cells = mod.cells(tier, seed)
        if only:
            cells = [c for c in cells if only in json.dumps(c)]
    n = nshards or NSHARDS
    # thorough: four generations of worker processes per slot. One process that compiles
    # thousands of small programs runs into the kernel's per-process limit on memory mappings
    # (vm.max_map_count = 65530; observed as "LLVM compilation error: Cannot allocate memory"
    # with 49 GB free) - fresh processes do not.
    gens = 1 if (replay or only) else (2 if tier == "quick" else 4)
    shards = assign(cells, n * gens)
    work = os.path.join(core.VERIF, ".work", f"{prop}-{tier}-{os.getpid()}")
    shutil.rmtree(work, ignore_errors=True)
    os.makedirs(work)
    env = dict(os.environ)
    env.update({"PYTHONDONTWRITEBYTECODE": "1", "PYTHONHASHSEED": "0",
                "PYTHONWARNINGS": "ignore", "OMP_NUM_THREADS": "1",
                "OPENBLAS_NUM_THREADS": "1", "MKL_NUM_THREADS": "1",
                "XLA_FLAGS": "--xla_cpu_multi_thread_eigen=false intra_op_parallelism_threads=1",
                "JAX_PLATFORMS": "cpu", core.GUARD: "1"})
    budget = TIMEOUT[tier]
    jobs = []
    for i, sh in enumerate(shards):
        cf = os.path.join(work, f"cells{i}.json")
        of = os.path.join(work, f"out{i}.json")
        json.dump(sh, open(cf, "w"))
        cmd = [sys.executable, "-W", "ignore", os.path.join(core.VERIF, "gtmon", "worker.py"),
               "--prop", prop, "--tier", tier, "--seed", str(seed), "--cells", cf,
               "--out", of, "--budget", str(budget * 0.85 / gens)]
        # every other shard imports the library before double precision is switched on (the
        # repository's own tests do that; module-level constants are evaluated at import time)
        env_i = dict(env, GT_IMPORT_ORDER="lib-first" if (i + seed) % 2 else "x64-first")
        if replay and sh and isinstance(sh[0], dict) and sh[0].get("import_order"):
            env_i["GT_IMPORT_ORDER"] = sh[0]["import_order"]  # a replay keeps the order it failed in
        jobs.append((cmd, env_i, of, i))
    problems = []
    outs = []
    deadline = t0 + budget
    running = []
    pending = list(jobs)

    def finish(p, of, log, i):
        log.close()
        if os.path.exists(of):
            try:
                outs.append(json.load(open(of)))
            except Exception as e:
                problems.append(f"shard {i} output unreadable: {e!r}")
        else:
            tail = open(os.path.join(work, f"log{i}.txt")).read()[-1500:]
            problems.append(f"shard {i} produced no output (exit {p.returncode}): {tail}")

    while pending or running:
        while pending and len(running) < n:
            cmd, env_i, of, i = pending.pop(0)
            log = open(os.path.join(work, f"log{i}.txt"), "w")
            running.append((subprocess.Popen(cmd, env=env_i, stdout=log, stderr=subprocess.STDOUT,
                                             cwd=core.VERIF), of, log, i))
        still = []
        for p, of, log, i in running:
            if p.poll() is not None:
                finish(p, of, log, i)
            elif time.time() > deadline:
                p.kill()
                p.wait()
                problems.append(f"shard {i} hit the wall-clock watchdog")
                finish(p, of, log, i)
            else:
                still.append((p, of, log, i))
        running = still
        if running:
            time.sleep(0.2)
    res = merge(prop, mod, tier, seed, cells, outs, problems, time.time() - t0,
                partial=bool(only or replay))
    if not os.environ.get("GT_KEEP_WORK"):
        shutil.rmtree(work, ignore_errors=True)
    return res


def merge(prop, mod, tier, seed, cells, outs, problems, wall, partial=False):
    known = load_known()
    ev = 0
    cellmap, fails, fail_counts, samples, counters, ratios = {}, {}, {}, [], {}, {}
    events, mon_evals, notes, herr = {}, {}, [], []
    cov = {}
    max_ratio, max_at, closest = 0.0, None, None
    done = skipped = 0
    for o in outs:
        ev += o["evaluations"]
        for k, v in o["cells"].items():
            c = cellmap.setdefault(k, {"nontrivial": False, "n": 0})
            c["n"] += v["n"]
            c["nontrivial"] = c["nontrivial"] or v["nontrivial"]
        for m, lst in o["fails"].items():
            fails.setdefault(m, []).extend(lst)
        for m, c in o["fail_counts"].items():
            fail_counts[m] = fail_counts.get(m, 0) + c
        samples.extend(o["samples"])
        for k, v in o["counters"].items():
            counters[k] = counters.get(k, 0) + v
        for k, v in o["ratios"].items():
            ratios[k] = max(ratios.get(k, 0.0), v)
        if o["max_ratio"] > max_ratio:
            max_ratio, max_at = o["max_ratio"], o["max_ratio_at"]
            closest = o.get("closest")
        for k, v in o.get("events", {}).items():
            events[k] = events.get(k, 0) + v
        for mname, d in o.get("monitor_evaluations", {}).items():
            md = mon_evals.setdefault(mname, {})
            for k, v in d.items():
                md[k] = md.get(k, 0) + v
        notes.extend(o.get("notes", []))
        herr.extend(o.get("harness_errors", []))
        done += o.get("cells_done", 0)
        skipped += o.get("cells_skipped", 0)
        for c in o.get("coverage", []):
            d = cov.setdefault(c["label"], {"lines": set(), "hit": set()})
            d["lines"] |= set(c["lines"])
            d["hit"] |= set(c["hit"])
    # verdict
    lines = []
    viol = []
    known_hit = {}
    for m in sorted(fails):
        k = match_known(prop, m, known)
        if k is not None:
            known_hit.setdefault(k.get("id", k.get("what")), (k, []))[1].append(m)
        else:
            viol.append(m)
    for kid, (k, ms) in known_hit.items():
        lines.append(f"KNOWN-FINDING: property={prop} {k['what']}")
    replay_paths = []
    if viol:
        rdir = os.environ.get("GT_REPLAY_DIR", os.path.join(core.VERIF, "replays"))
        os.makedirs(rdir, exist_ok=True)
        for i, m in enumerate(viol):
            d = fails[m][0]
            safe = "".join(ch if ch.isalnum() or ch in "-_." else "_" for ch in m)[:80]
            path = os.path.join(rdir, f"{prop}-{safe}-{seed}.json")
            json.dump({"property": prop, "tier": tier, "seed": seed, "mechanism": m,
                       "count": fail_counts.get(m, 1), "cell": d.get("cell"),
                       "detail": d, "more": fails[m][1:]}, open(path, "w"), indent=1)
            replay_paths.append(path)
            lines.append(f"VIOLATION property={prop} replay={path}")
            lines.append(f"  mechanism={m} count={fail_counts.get(m, 1)} "
                         f"check={d.get('check')} err_over_tol={d.get('err_over_tol')} "
                         f"error={d.get('error')}")
    nontriv = sum(1 for c in cellmap.values() if c["nontrivial"])
    inconclusive = list(problems)
    if herr:
        inconclusive.append(f"{len(herr)} harness errors, first: {json.dumps(herr[0])[:600]}")
    if skipped:
        inconclusive.append(f"{skipped} cells skipped (time budget)")
    if ev == 0:
        inconclusive.append("no comparison was evaluated")
    for mname in (() if partial else getattr(mod, "REQUIRED_MONITORS", ())):
        if sum(mon_evals.get(mname, {}).values()) == 0:
            inconclusive.append(f"deciding monitor {mname} was never evaluated")
    covrep = []
    for label, d in sorted(cov.items()):
        covrep.append({"region": label, "executable_lines": len(d["lines"]),
                       "hit": len(d["hit"])})
        if not d["hit"] and not partial and not getattr(mod, "ANCHORS_OPTIONAL", False):
            inconclusive.append(f"anchored region {label} never executed")
    need = getattr(mod, "MIN_EVALUATIONS", {"quick": 1, "thorough": 1}).get(tier, 1)
    if ev < need:
        inconclusive.append(f"only {ev} evaluations (< {need})")
    evidence = {
        "property_id": prop,
        "tier": tier,
        "seed": int(seed),
        "level": "exploration",
        "coverage": {
            "evaluations": int(ev),
            "distinct_nontrivial": int(nontriv),
            "rule": getattr(mod, "RULE", ""),
            "samples": samples[:6] if samples else [{"cells": list(cellmap)[:3]}],
            "cells_total": len(cellmap),
            "cells_planned": len(cells),
            "cells_run": done,
            "cells": {k: v["n"] for k, v in sorted(cellmap.items())[:400]},
            "events_by_method": dict(sorted(events.items(), key=lambda kv: -kv[1])[:80]),
            "monitor_evaluations": {m: {"total": sum(d.values()), "by_producer": dict(
                sorted(d.items(), key=lambda kv: -kv[1])[:40])} for m, d in mon_evals.items()},
            "anchor_lines": covrep,
            "counters": counters,
            "max_err_over_tol": max_ratio,
            "max_err_over_tol_at": max_at,
            "closest_call": closest,
            "err_over_tol_by_check": dict(sorted(ratios.items(), key=lambda kv: -kv[1])[:40]),
            "known_findings_matched": {str(kid): ms for kid, (k, ms) in known_hit.items()},
            "violating_mechanisms": {m: fail_counts.get(m, 1) for m in viol},
            "inconclusive_reasons": inconclusive,
            "notes": notes[:10],
        },
        "assumptions": getattr(mod, "ASSUMPTIONS", [
            "NumPy/SciPy/mpmath oracles are correct to their stated precision",
            "input domain: covariance/precision matrices with condition number <= 1e4",
        ]),
        "wall_s": float(wall),
        "violations": len(viol),
    }
    evdir = os.environ.get("GT_EVIDENCE_DIR", os.path.join(core.VERIF, "evidence"))
    os.makedirs(evdir, exist_ok=True)
    evpath = os.path.join(evdir, f"{prop}.json")
    try:
        validate(evidence)
    except Exception as e:  # never write an invalid file silently
        inconclusive.append(f"evidence does not validate: {str(e)[:200]}")
    json.dump(evidence, open(evpath, "w"), indent=1)
    for ln in lines:
        print(ln)
    status = "violated" if viol else ("inconclusive" if inconclusive else "held")
    print(f"[{prop} {tier} seed={seed}] {status}: evaluations={ev} cells={len(cellmap)} "
          f"nontrivial={nontriv} max_err/tol={max_ratio:.2e} wall={wall:.0f}s "
          f"monitors={ {m: sum(d.values()) for m, d in mon_evals.items()} }")
    if viol:
        return 1
    if inconclusive:
        for r in inconclusive:
            print(f"INCONCLUSIVE: property={prop} {r}")
        return 2
    return 0


def validate(evidence):
    try:
        import jsonschema
    except ImportError:
        deps = os.path.join(core.VERIF, ".deps")
        if deps not in sys.path:
            sys.path.append(deps)
        try:
            import jsonschema
        except ImportError:
            return
    sp = "/root/.vp/EVIDENCE.schema.json"
    if not os.path.exists(sp):
        sp = os.path.join(core.VERIF, "schemas", "EVIDENCE.schema.json")
    if not os.path.exists(sp):
        return
    jsonschema.validate(evidence, json.load(open(sp)))
