"""Reference models. NumPy / SciPy / mpmath only; none of the library's formulas.

Conventions: batches have a leading axis; x is [N, D]; results are [R, N] like the
library's evaluate_ln.
"""
import itertools
import math

import numpy as np

LN2PI = math.log(2.0 * math.pi)


# --------------------------------------------------------------------------- basics
def slogdet(S):
    sign, ld = np.linalg.slogdet(S)
    return ld


def inv(S):
    S = np.asarray(S, dtype=float)
    return np.linalg.solve(S, np.broadcast_to(np.eye(S.shape[-1]), S.shape).copy())


def factor_ln(Lambda, nu, ln_beta, x):
    """ln f_r(x_n) = -1/2 x'Lambda_r x + nu_r'x + ln_beta_r  ->  [R, N]"""
    Lambda, nu, ln_beta, x = map(lambda a: np.asarray(a, dtype=float), (Lambda, nu, ln_beta, x))
    q = np.einsum("nd,rde,ne->rn", x, Lambda, x)
    return -0.5 * q + nu @ x.T + ln_beta[:, None]


def factor_ln_abs(Lambda, nu, ln_beta, x):
    """natural scale of factor_ln: sum of absolute terms."""
    Lambda, nu, ln_beta, x = map(lambda a: np.asarray(a, dtype=float), (Lambda, nu, ln_beta, x))
    q = np.einsum("nd,rde,ne->rn", np.abs(x), np.abs(Lambda), np.abs(x))
    return 1.0 + 0.5 * q + np.abs(nu) @ np.abs(x).T + np.abs(ln_beta)[:, None]


def mvn_logpdf(x, mu, Sigma):
    """[R, N] log N(x_n; mu_r, Sigma_r) via LU solve + slogdet."""
    x, mu, Sigma = (np.asarray(a, dtype=float) for a in (x, mu, Sigma))
    D = mu.shape[-1]
    d = x[None, :, :] - mu[:, None, :]  # R N D
    sol = np.linalg.solve(Sigma[:, None], d[..., None])[..., 0]
    q = np.sum(d * sol, axis=-1)
    return -0.5 * (q + D * LN2PI + slogdet(Sigma)[:, None])


def mvn_logpdf_abs(x, mu, Sigma):
    x, mu, Sigma = (np.asarray(a, dtype=float) for a in (x, mu, Sigma))
    D = mu.shape[-1]
    L = np.abs(inv(Sigma))
    d = np.abs(x)[None, :, :] + np.abs(mu)[:, None, :]
    q = np.einsum("rnd,rde,rne->rn", d, L, d)
    return 1.0 + 0.5 * (q + D * LN2PI + np.abs(slogdet(Sigma))[:, None])


def mvn_logpdf_elem(x, mu, Sigma):
    """[R] log N(x_r; mu_r, Sigma_r)."""
    x, mu, Sigma = (np.asarray(a, dtype=float) for a in (x, mu, Sigma))
    D = mu.shape[-1]
    d = x - mu
    sol = np.linalg.solve(Sigma, d[..., None])[..., 0]
    return -0.5 * (np.sum(d * sol, -1) + D * LN2PI + slogdet(Sigma))


def gauss_lnZ(Lambda, nu):
    """ln int exp(-1/2 x'Lx + nu'x) dx, [R]."""
    Lambda, nu = np.asarray(Lambda, dtype=float), np.asarray(nu, dtype=float)
    D = nu.shape[-1]
    sol = np.linalg.solve(Lambda, nu[..., None])[..., 0]
    return 0.5 * (np.sum(nu * sol, -1) + D * LN2PI - slogdet(Lambda))


def moments_from_natural(Lambda, nu):
    Sigma = inv(Lambda)
    Sigma = 0.5 * (Sigma + np.swapaxes(Sigma, -1, -2))
    mu = np.einsum("rde,re->rd", Sigma, nu)
    return mu, Sigma


def entropy(Sigma):
    w = np.linalg.eigvalsh(Sigma)
    return 0.5 * np.sum(np.log(2 * math.pi * math.e * w), axis=-1)


def kl(mu0, S0, mu1, S1):
    """KL(N0 || N1), batched with broadcasting on the leading axis."""
    mu0, S0, mu1, S1 = (np.asarray(a, dtype=float) for a in (mu0, S0, mu1, S1))
    R = max(mu0.shape[0], mu1.shape[0])
    mu0 = np.broadcast_to(mu0, (R,) + mu0.shape[1:])
    mu1 = np.broadcast_to(mu1, (R,) + mu1.shape[1:])
    S0 = np.broadcast_to(S0, (R,) + S0.shape[1:])
    S1 = np.broadcast_to(S1, (R,) + S1.shape[1:])
    D = mu0.shape[-1]
    A = np.linalg.solve(S1, S0)
    d = mu1 - mu0
    q = np.sum(d * np.linalg.solve(S1, d[..., None])[..., 0], -1)
    return 0.5 * (np.trace(A, axis1=-2, axis2=-1) + q - D + slogdet(S1) - slogdet(S0))


def condition(mu, Sigma, ia, ib, xb):
    """law of x_a | x_b = xb for one Gaussian (mu [D], Sigma [D,D]); xb [N, |b|]."""
    Saa = Sigma[np.ix_(ia, ia)]
    Sab = Sigma[np.ix_(ia, ib)]
    Sbb = Sigma[np.ix_(ib, ib)]
    K = np.linalg.solve(Sbb, Sab.T).T
    m = mu[ia][None] + (xb - mu[ib][None]) @ K.T
    C = Saa - K @ Sab.T
    return m, 0.5 * (C + C.T)


# --------------------------------------------------------------------------- Wick / Isserlis
def _pairings(idx):
    if not idx:
        yield []
        return
    a = idx[0]
    for k in range(1, len(idx)):
        b = idx[k]
        rest = idx[1:k] + idx[k + 1:]
        for p in _pairings(rest):
            yield [(a, b)] + p


def wick_scalar(ms, C):
    """E[prod_i (m_i + z_i)], z ~ N(0, C), for scalar forms. ms: list, C: matrix
    (any numeric type incl. int / Fraction -> exact)."""
    n = len(ms)
    total = 0
    for k in range(0, n + 1, 2):
        for S in itertools.combinations(range(n), k):
            rest = [i for i in range(n) if i not in S]
            pm = 1
            for i in rest:
                pm = pm * ms[i]
            haf = 0
            for p in _pairings(list(S)):
                t = 1
                for (a, b) in p:
                    t = t * C[a][b]
                haf = haf + t
            total = total + pm * haf
    return total


class Forms:
    """affine forms F_i(x) = A_i x + a_i under N(mu, Sigma), one component.
    Provides E[prod of selected scalar entries] by Isserlis. dtype=object gives exact
    integer arithmetic."""

    def __init__(self, mu, Sigma, mats, vecs, dtype=float):
        self.dtype = dtype
        cv = (lambda a: np.asarray(a, dtype=object)) if dtype is object else (
            lambda a: np.asarray(a, dtype=float))
        if dtype is object:
            conv = lambda a: np.vectorize(lambda v: int(v), otypes=[object])(np.asarray(a))
        else:
            conv = cv
        self.mu = conv(mu)
        self.Sigma = conv(Sigma)
        self.mats = [conv(A) for A in mats]
        self.vecs = [conv(a) for a in vecs]
        self.m = [A.dot(self.mu) + a for A, a in zip(self.mats, self.vecs)]
        n = len(mats)
        self.C = [[self.mats[i].dot(self.Sigma).dot(self.mats[j].T) for j in range(n)]
                  for i in range(n)]

    def E(self, sel):
        """sel: list of (form index, row index)."""
        ms = [self.m[f][r] for f, r in sel]
        C = [[self.C[f1][f2][r1][r2] for (f2, r2) in sel] for (f1, r1) in sel]
        return wick_scalar(ms, C)

    def abs_companion(self):
        f = Forms.__new__(Forms)
        f.dtype = self.dtype
        f.mu = abs(self.mu)
        f.Sigma = abs(self.Sigma)
        f.mats = [abs(A) for A in self.mats]
        f.vecs = [abs(a) for a in self.vecs]
        f.m = [A.dot(f.mu) + a for A, a in zip(f.mats, f.vecs)]
        n = len(f.mats)
        f.C = [[f.mats[i].dot(f.Sigma).dot(f.mats[j].T) for j in range(n)] for i in range(n)]
        return f


def poly_moment(key, F, K=None, L=None, M=None):
    """moment of the documented polynomial `key` from affine forms F (Forms with the
    forms in the order A, B, C, D)."""
    rng = range
    n = [len(v) for v in F.vecs]
    if key == "(Ax+a)":
        return np.array([F.E([(0, k)]) for k in rng(n[0])], dtype=F.dtype)
    if key == "(Ax+a)'(Bx+b)":
        return sum(F.E([(0, k), (1, k)]) for k in rng(n[0]))
    if key == "(Ax+a)(Bx+b)'":
        return np.array([[F.E([(0, k), (1, l)]) for l in rng(n[1])] for k in rng(n[0])],
                        dtype=F.dtype)
    if key == "(Ax+a)(Bx+b)'(Cx+c)":
        return np.array([sum(F.E([(0, k), (1, l), (2, l)]) for l in rng(n[1]))
                         for k in rng(n[0])], dtype=F.dtype)
    if key == "(Ax+a)'(Bx+b)(Cx+c)'":
        return np.array([sum(F.E([(0, k), (1, k), (2, l)]) for k in rng(n[0]))
                         for l in rng(n[2])], dtype=F.dtype)
    if key == "(Ax+a)'(Bx+b)(Cx+c)'(Dx+d)":
        return sum(F.E([(0, k), (1, k), (2, l), (3, l)]) for k in rng(n[0]) for l in rng(n[2]))
    if key == "(Ax+a)(Bx+b)'(Cx+c)(Dx+d)'":
        return np.array([[sum(F.E([(0, k), (1, l), (2, l), (3, m)]) for l in rng(n[1]))
                          for m in rng(n[3])] for k in rng(n[0])], dtype=F.dtype)
    raise KeyError(key)


# --------------------------------------------------------------------------- quadrature
def gh_nodes(mu, Sigma, order):
    """tensor Gauss-Hermite nodes/weights for N(mu, Sigma), D <= 3. weights sum to 1."""
    from numpy.polynomial.hermite_e import hermegauss

    mu = np.asarray(mu, dtype=float)
    D = mu.shape[0]
    z, w = hermegauss(order)
    w = w / np.sqrt(2 * np.pi)
    L = np.linalg.cholesky(np.asarray(Sigma, dtype=float))
    grids = np.meshgrid(*([z] * D), indexing="ij")
    Z = np.stack([g.ravel() for g in grids], axis=1)
    W = np.ones(Z.shape[0])
    for d, g in enumerate(np.meshgrid(*([w] * D), indexing="ij")):
        W = W * g.ravel()
    X = mu[None] + Z @ L.T
    return X, W


def gh_expect(fun, mu, Sigma, orders=(60, 90), rel=1e-10):
    """E_{N(mu,Sigma)} fun(x) with convergence guard. fun: [n,D] -> [n,...].
    returns (value, converged)."""
    vals = []
    for o in orders:
        X, W = gh_nodes(mu, Sigma, o)
        f = np.asarray(fun(X), dtype=float)
        vals.append(np.tensordot(W, f, axes=(0, 0)))
    a, b = vals
    scale = 1.0 + np.max(np.abs(b))
    ok = bool(np.max(np.abs(a - b)) <= rel * scale)
    return b, ok
