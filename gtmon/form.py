"""FORM: input-form invariance monitor (differential re-execution at the API boundary).

The properties quantify over values ("for every measure u, every point x ..."), not over the
container the values arrive in. For a sample of the boundary calls a workload makes, the very same
method of the real library is executed again on

* ``numpy``: a clone of the receiver and of every argument in which each array is a NumPy
  float64 array instead of a jax array (the library stores what it is given unconverted). The
  result must equal the original result, and no NumPy array handed in may be written to (an
  in-place ``+=`` on an operand is invisible with immutable jax arrays);
* ``int``: one numeric input - an array argument, or one defining field (mean, offset, map,
  covariance, information vector) of the receiver or of an object argument, rebuilt through its
  public constructor - is rounded to integers and passed once as float64 and once as int64. The
  two results must agree (silent truncation of an offset, a buffer allocated with the dtype of an
  integer operand).

Both sides of each comparison are executions of the library; the comparison needs no oracle and
no domain guard beyond "the float64 run returned finite values". A form the library does not
accept (the alternative run raises while the float64 run does not) is counted
``form_unsupported`` and is not a violation: the documented argument type is a jax float array.
"""
import dataclasses

import numpy as np

SKIP_METHODS = {"__init__", "__post_init__", "update", "normalize", "update_Sigma", "update_phi",
                "compute_lnZ", "invert_lambda", "compute_mu", "_prepare_integration",
                "from_dict", "to_dict", "slice", "R", "D", "Dx", "Dy"}
FIRST = 2      # numpy variant: the first FIRST boundary calls of every (Class.method[flags]) key
FIRST_INT = 8  # int variant: the first FIRST_INT calls (it cycles through the roundable inputs)
EVERY = 25     # ... and every EVERY-th one afterwards (both variants)
FIRST_JIT = 1  # jit variant: the first call of a key (tracing and compiling is the expensive part)
JIT_MOD = 1    # ... for the keys whose hash is 0 modulo JIT_MOD (set by the worker per tier)
TOL = 1e-8

_counts = {}


def _lib():
    from . import hooks

    return hooks._lib()


def _is_jax(a):
    import jax

    return isinstance(a, jax.Array)


def _is_tracer(a):
    import jax

    return isinstance(a, jax.core.Tracer)


def _is_libobj(o):
    return dataclasses.is_dataclass(o) and not isinstance(o, type) and type(o).__module__.startswith(
        "gaussian_toolbox")


def has_tracer(o, depth=0):
    if _is_tracer(o):
        return True
    if depth > 3:
        return False
    if isinstance(o, (list, tuple)):
        return any(has_tracer(x, depth + 1) for x in o)
    if isinstance(o, dict):
        return any(has_tracer(x, depth + 1) for x in o.values())
    if _is_libobj(o):
        return any(has_tracer(x, depth + 1) for x in o.__dict__.values())
    return False


# ------------------------------------------------------------------ numpy clones
def clone_np(o, made, depth=0):
    """deep clone with every floating jax array replaced by a writeable NumPy copy. `made`
    collects (array, pristine copy, label) for the in-place-write check."""
    if _is_jax(o):
        if np.issubdtype(o.dtype, np.floating):
            a = np.array(o, dtype=np.float64)
            made.append((a, a.copy()))
            return a
        return o
    if depth > 4:
        return o
    if isinstance(o, tuple):
        return tuple(clone_np(x, made, depth + 1) for x in o)
    if isinstance(o, list):
        return [clone_np(x, made, depth + 1) for x in o]
    if isinstance(o, dict) and not _is_libobj(o):
        return {k: clone_np(v, made, depth + 1) for k, v in o.items()}
    if _is_libobj(o):
        c = object.__new__(type(o))
        for k, v in o.__dict__.items():
            object.__setattr__(c, k, clone_np(v, made, depth + 1))
        return c
    return o


# ------------------------------------------------------------------ result comparison
def _leaves(o, path, out, depth=0):
    if o is None or callable(o) and not _is_libobj(o):
        return
    if hasattr(o, "shape") and hasattr(o, "dtype"):
        out[path] = np.asarray(o)
        return
    if isinstance(o, (bool, int, float)):
        out[path] = np.asarray(float(o))
        return
    if depth > 4:
        return
    if isinstance(o, (list, tuple)):
        for i, x in enumerate(o):
            _leaves(x, f"{path}[{i}]", out, depth + 1)
    elif isinstance(o, dict) and not _is_libobj(o):
        for k, v in o.items():
            _leaves(v, f"{path}[{k!r}]", out, depth + 1)
    elif _is_libobj(o):
        out[path + ":class"] = type(o).__name__
        for k, v in o.__dict__.items():
            _leaves(v, f"{path}.{k}", out, depth + 1)


def compare(ref, alt, probe=None):
    """first disagreement between two results (None if they agree). Only leaves present on both
    sides are compared (a lazily filled cache may exist on one side only). probe: a third result,
    obtained from inputs perturbed at the 1e-14 level - its distance v from ref measures how far
    rounding alone moves each leaf; 10 v + 10 (v / 1e-14 scale)^2 eps scale is added to the
    tolerance."""
    a, b, c = {}, {}, {}
    _leaves(ref, "result", a)
    _leaves(alt, "result", b)
    if probe is not None:
        _leaves(probe, "result", c)
    for k, va in a.items():
        if k not in b:
            continue
        vb = b[k]
        if isinstance(va, str) or isinstance(vb, str):
            if va != vb:
                return {"leaf": k, "ref": va, "alt": vb}
            continue
        if va.shape != vb.shape:
            return {"leaf": k, "ref_shape": list(va.shape), "alt_shape": list(vb.shape)}
        if va.dtype.kind not in "fiub" or vb.dtype.kind not in "fiub":
            continue
        fa, fb = va.astype(float), vb.astype(float)
        fin = np.isfinite(fa)
        if not np.array_equal(fin, np.isfinite(fb)):
            return {"leaf": k, "error": "finite pattern differs", "ref": fa, "alt": fb}
        if not fin.any():
            continue
        scale = 1.0 + float(np.max(np.abs(fa[fin])))
        err = float(np.max(np.abs(fa[fin] - fb[fin])))
        tol = TOL * scale
        if probe is not None:
            vc = c.get(k)
            if vc is None or isinstance(vc, str) or vc.shape != va.shape:
                continue  # sensitivity unknown: not judged
            fc = vc.astype(float)
            if not np.all(np.isfinite(fc[fin])):
                continue
            v = float(np.max(np.abs(fa[fin] - fc[fin])))
            # v / (1e-14 scale) estimates the condition number of the call; formulas that go
            # through an explicit inverse (as the library's do) have a forward rounding error of
            # up to cond^2 eps, so two differently rounded executions may differ by that much
            tol += 10.0 * v + 10.0 * 1e12 * v * v / scale
        if err > tol:
            return {"leaf": k, "max_abs_err": err, "err_over_tol": err / tol,
                    "ref": fa, "alt": fb}
    return None


def perturbed(o, rng, depth=0):
    """clone with every float array multiplied entry-wise by 1 + 1e-14 N(0,1) (symmetric noise
    for square trailing dimensions, so covariances stay symmetric)."""
    from jax import numpy as jnp

    if _is_jax(o) and np.issubdtype(o.dtype, np.floating):
        a = np.asarray(o, dtype=np.float64)
        n = rng.standard_normal(a.shape)
        if a.ndim >= 2 and a.shape[-1] == a.shape[-2]:
            n = 0.5 * (n + np.swapaxes(n, -1, -2))
        return jnp.asarray(a * (1.0 + 1e-14 * n))
    if depth > 4:
        return o
    if isinstance(o, tuple):
        return tuple(perturbed(x, rng, depth + 1) for x in o)
    if isinstance(o, list):
        return [perturbed(x, rng, depth + 1) for x in o]
    if isinstance(o, dict) and not _is_libobj(o):
        return {k: perturbed(v, rng, depth + 1) for k, v in o.items()}
    if _is_libobj(o):
        c = object.__new__(type(o))
        for k, v in o.__dict__.items():
            object.__setattr__(c, k, perturbed(v, rng, depth + 1))
        return c
    return o


def all_finite(res):
    a = {}
    _leaves(res, "r", a)
    for v in a.values():
        if not isinstance(v, str) and v.dtype.kind == "f" and not np.all(np.isfinite(v)):
            return False
    return True


# ------------------------------------------------------------------ integer variant
def _rebuilders():
    factor, measure, pdf, conditional, approx, trunc = _lib()
    return {
        pdf.GaussianPDF: ("Sigma", "mu"),
        pdf.GaussianDiagPDF: ("Sigma", "mu"),
        measure.GaussianMeasure: ("Lambda", "nu", "ln_beta"),
        measure.GaussianDiagMeasure: ("Lambda", "nu", "ln_beta"),
        factor.ConjugateFactor: ("Lambda", "nu", "ln_beta"),
        factor.LinearFactor: ("nu", "ln_beta"),
        factor.OneRankFactor: ("v", "g", "nu", "ln_beta"),
        conditional.ConditionalGaussianPDF: ("M", "b", "Sigma"),
        conditional.ConditionalGaussianDiagPDF: ("M", "b", "Sigma"),
        conditional.ConditionalIdentityGaussianPDF: ("Sigma",),
        conditional.ConditionalIdentityDiagGaussianPDF: ("Sigma",),
    }


MATRIX_FIELDS = ("Sigma", "Lambda")


def _round(a, field=None):
    """integer-valued float64 version of a (None if that cannot stay a valid input)."""
    a = np.asarray(a, dtype=float)
    if a.size == 0 or not np.all(np.isfinite(a)):
        return None
    m = float(np.max(np.abs(a)))
    if field in MATRIX_FIELDS:
        if a.ndim != 3 or a.shape[-1] != a.shape[-2]:
            return None
        w = np.linalg.eigvalsh(0.5 * (a + np.swapaxes(a, -1, -2)))
        if np.any(w <= 0):
            return None  # (a singular precision of a plain factor is left alone)
        s = 8.0 / float(np.min(w))
        if s * m > 1e6:
            return None
        r = np.rint(a * s)
        r = 0.5 * (r + np.swapaxes(r, -1, -2))
        if np.any(r != np.rint(r)) or np.any(np.linalg.eigvalsh(r) < 1.0):
            return None
        return r
    if m == 0.0:
        return a.copy()
    s = 1.0 if m >= 4.0 else 7.0 / m
    if s * m > 1e9:
        return None
    return np.rint(a * s)


def _candidates(self, args, kwargs):
    """(kind, where, field) of every numeric input that can be rounded."""
    reb = _rebuilders()
    out = []

    def obj_fields(o, where):
        fields = reb.get(type(o))
        if not fields:
            return
        for f in fields:
            v = o.__dict__.get(f)
            if v is not None and hasattr(v, "dtype") and np.issubdtype(v.dtype, np.floating):
                out.append(("obj", where, f))

    obj_fields(self, ("self", None))
    for i, a in enumerate(args):
        if _is_libobj(a):
            obj_fields(a, ("arg", i))
        elif hasattr(a, "dtype") and hasattr(a, "ndim") and a.ndim >= 1 and np.issubdtype(
                a.dtype, np.floating):
            out.append(("array", ("arg", i), None))
    for k, a in kwargs.items():
        if _is_libobj(a):
            obj_fields(a, ("kw", k))
        elif hasattr(a, "dtype") and hasattr(a, "ndim") and a.ndim >= 1 and np.issubdtype(
                a.dtype, np.floating):
            out.append(("array", ("kw", k), None))
    return out


def _rebuild(o, field, value):
    from jax import numpy as jnp

    fields = _rebuilders()[type(o)]
    kw = {}
    for f in fields:
        v = o.__dict__.get(f)
        if v is None:
            continue
        kw[f] = value if f == field else v
    if hasattr(o, "num_dim") and "num_dim" in {f.name for f in dataclasses.fields(o) if f.init}:
        kw["num_dim"] = o.num_dim
    return type(o)(**{k: (jnp.asarray(v) if isinstance(v, np.ndarray) else v)
                      for k, v in kw.items()})


def _substitute(self, args, kwargs, cand, value):
    kind, (place, key), field = cand
    args = list(args)
    kwargs = dict(kwargs)

    def put(new):
        nonlocal self
        if place == "self":
            self = new
        elif place == "arg":
            args[key] = new
        else:
            kwargs[key] = new

    if kind == "array":
        put(value)
    else:
        o = self if place == "self" else (args[key] if place == "arg" else kwargs[key])
        put(_rebuild(o, field, value))
    return self, tuple(args), kwargs


def _get(self, args, kwargs, cand):
    kind, (place, key), field = cand
    o = self if place == "self" else (args[key] if place == "arg" else kwargs[key])
    return o if kind == "array" else o.__dict__[field]


# ------------------------------------------------------------------ driver
def selected(key):
    n = _counts.get(key, 0) + 1
    _counts[key] = n
    return n <= FIRST_INT or n % EVERY == 0


def clone_state(o, depth=0):
    """the receiver / arguments as the call is about to see them (arrays are immutable: shared)."""
    if depth > 4:
        return o
    if isinstance(o, tuple):
        return tuple(clone_state(x, depth + 1) for x in o)
    if isinstance(o, list):
        return [clone_state(x, depth + 1) for x in o]
    if isinstance(o, dict) and not _is_libobj(o):
        return {k: clone_state(v, depth + 1) for k, v in o.items()}
    if _is_libobj(o):
        c = object.__new__(type(o))
        for k, v in o.__dict__.items():
            object.__setattr__(c, k, clone_state(v, depth + 1))
        return c
    return o


def _jit_selected(key):
    import zlib

    return JIT_MOD <= 1 or zlib.crc32(key.encode()) % JIT_MOD == 0


def _is_dynamic(a):
    if _is_libobj(a):
        return True
    return hasattr(a, "dtype") and hasattr(a, "ndim") and np.issubdtype(a.dtype, np.floating)


def _worst_condition(*objs):
    """largest condition number among the symmetric [.., D, D] float leaves (covariances and
    precisions of operands and results; inf for an indefinite one)."""
    worst = 1.0
    for o in objs:
        leaves = {}
        _leaves(o, "o", leaves)
        for k, a in leaves.items():
            if isinstance(a, str) or a.dtype.kind != "f" or a.ndim < 2 or a.shape[-1] != a.shape[-2] \
                    or a.shape[-1] < 2 or not np.all(np.isfinite(a)):
                continue
            if not np.allclose(a, np.swapaxes(a, -1, -2), rtol=1e-6, atol=0.0):
                continue
            w = np.linalg.eigvalsh(0.5 * (a + np.swapaxes(a, -1, -2)).reshape(-1, *a.shape[-2:]))
            if np.any(w[:, -1] <= 0):
                continue  # a singular precision of a plain factor: nothing is inverted
            nz = w[:, 0] > 1e-13 * w[:, -1]  # exactly rank-deficient precisions are by design
            if np.any(nz):
                worst = max(worst, float(np.max((w[:, -1] / np.where(nz, w[:, 0], 1.0))[nz])))
    return worst


def _run_jit(fn, key, res, self0, args0, kwargs0, rec, report, count):
    import jax

    if not _is_libobj(self0):
        return
    # differently rounded executions of an information-form update agree to about eps times the
    # condition number of the matrices it inverts: judged where that stays below 1e-8 (the same
    # kind of guard the value oracles use; the unstable cases are theirs to exclude or judge)
    if _worst_condition(self0, args0, kwargs0, res) > 1e6:
        rec.count("form_jit_out_of_domain")
        return
    pos = [i for i, a in enumerate(args0) if _is_dynamic(a)]
    kws = [k for k, a in kwargs0.items() if _is_dynamic(a)]

    def f(s, dyn_a, dyn_k):
        a = list(args0)
        for i, v in zip(pos, dyn_a):
            a[i] = v
        k = dict(kwargs0)
        for n, v in zip(kws, dyn_k):
            k[n] = v
        return fn(s, *a, **k)

    try:
        r_jit = jax.jit(f)(self0, [args0[i] for i in pos], [kwargs0[k] for k in kws])
    except Exception as e:
        rec.count("form_unsupported:jit")
        if len(rec.notes) < 8:
            rec.notes.append(f"FORM jit unsupported at {key}: {type(e).__name__}")
        return
    # compiled code rounds differently (fusion, other reduction orders): the distance the
    # eager result itself moves under a 1e-14 perturbation of the inputs is the yardstick
    try:
        prng = np.random.default_rng(12345)
        r_pert = fn(perturbed(self0, prng), *perturbed(args0, prng), **perturbed(kwargs0, prng))
    except Exception:
        rec.count("form_jit_probe_raises")
        return
    count("FORM", key)
    rec.evaluations += 1
    rec.count("form_jit_evaluated")
    bad = compare(res, r_jit, probe=r_pert)
    if bad is not None:
        report("FORM", "jit-value", key, dict(bad, variant="the same call under jax.jit with "
                                              "receiver and numeric arguments traced"))


# ------------------------------------------------------------------ recall and sibling variants
def _alt_args(args, kwargs):
    """the same call shape with other values: float arrays affinely changed, integer index arrays
    reversed. None if nothing can be varied."""
    from jax import numpy as jnp

    changed = [False]

    def alt(a):
        if _is_libobj(a) or not (hasattr(a, "dtype") and hasattr(a, "ndim")) or a.ndim == 0:
            return a
        if np.issubdtype(a.dtype, np.floating):
            changed[0] = True
            return jnp.asarray(np.asarray(a) * 1.37 + 0.11)
        if np.issubdtype(a.dtype, np.integer) and a.ndim == 1 and a.shape[0] > 1:
            changed[0] = True
            return jnp.asarray(np.asarray(a)[::-1].copy())
        return a

    a2 = tuple(alt(a) for a in args)
    k2 = {k: alt(v) for k, v in kwargs.items()}
    return (a2, k2) if changed[0] else None


def _run_recall(fn, key, res, self0, args0, kwargs0, rec, report, count):
    """on one clone: the call with other argument values first, then the original call again -
    the second answer must be the original answer (a memo keyed by too few of the arguments)."""
    alt = _alt_args(args0, kwargs0)
    if alt is None:
        return
    c = clone_state(self0)
    try:
        fn(c, *alt[0], **alt[1])
    except Exception:
        rec.count("form_recall_alt_raises")
        return
    try:
        again = fn(c, *args0, **kwargs0)
    except Exception as e:
        report("FORM", "recall-raises", key, {"error": repr(e)[:200]})
        return
    count("FORM", key)
    rec.evaluations += 1
    rec.count("form_recall_evaluated")
    bad = compare(res, again)
    if bad is not None:
        report("FORM", "recall-value", key, dict(bad, variant="same call after a call with other "
                                                 "argument values on the same object"))


INTEGRATE_NAMES = {
    "1": "integral", "x": "integrate_x", "(Ax+a)": "integrate_general_linear",
    "xx'": "integrate_xxT", "(Ax+a)'(Bx+b)": "integrate_general_quadratic_inner",
    "(Ax+a)(Bx+b)'": "integrate_general_quadratic_outer",
    "(Ax+a)(Bx+b)'(Cx+c)": "integrate_general_cubic_inner",
    "(Ax+a)'(Bx+b)(Cx+c)'": "integrate_general_cubic_outer",
    "x(A'x + a)x'": "integrate_cubic_outer", "xb'xx'": "integrate_xbxx",
    "(Ax+a)'(Bx+b)(Cx+c)'(Dx+d)": "integrate_general_quartic_inner",
    "(Ax+a)(Bx+b)'(Cx+c)(Dx+d)'": "integrate_general_quartic_outer",
}


def _siblings(name, self0, args0, kwargs0):
    """[(label, thunk, transform of the original result)] - other public entry points that the
    documentation defines as the same quantity."""
    from jax import numpy as jnp

    factor, measure, pdf, conditional, approx, trunc = _lib()
    out = []
    ident = lambda r: r
    if isinstance(self0, trunc.TruncatedGaussianMeasure):
        return out
    if name == "evaluate_ln" and isinstance(self0, factor.ConjugateFactor):
        for sib in ("evaluate", "__call__"):
            out.append((sib, lambda c, sib=sib: getattr(c, sib)(*args0, **kwargs0), jnp.exp))
    elif name == "log_integral" and isinstance(self0, measure.GaussianMeasure):
        out.append(("log_integral_light", lambda c: c.log_integral_light(), ident))
        out.append(("integral", lambda c: c.integral(), jnp.exp))
        out.append(("integral_light", lambda c: c.integral_light(), jnp.exp))
        out.append(("integrate('1')", lambda c: c.integrate("1"), jnp.exp))
    elif name == "integrate" and isinstance(self0, measure.GaussianMeasure):
        expr = args0[0] if args0 else kwargs0.get("expr", "1")
        meth = INTEGRATE_NAMES.get(expr)
        kw = {k: v for k, v in kwargs0.items() if k != "expr"}
        if meth is not None:
            out.append((meth, lambda c: getattr(c, meth)(**kw), ident))
    elif name == "multiply" and isinstance(self0, measure.GaussianMeasure) and len(args0) == 1 \
            and not kwargs0.get("update_full", False):
        out.append(("__mul__", lambda c: c * args0[0], ident))
    elif name == "condition_on" and isinstance(self0, pdf.GaussianPDF) and len(args0) == 1:
        dy = np.asarray(args0[0])
        dx = np.array([i for i in range(self0.D) if i not in set(dy.tolist())])
        if dx.size and dy.size:
            out.append(("condition_on_explicit",
                        lambda c: c.condition_on_explicit(jnp.asarray(dy), jnp.asarray(dx)), ident))
    return out


def _run_siblings(name, key, res, self0, args0, kwargs0, rec, report, count):
    for label, thunk, tf in _siblings(name, self0, args0, kwargs0):
        c = clone_state(self0)
        try:
            r = thunk(c)
        except Exception as e:
            report("FORM", "sibling-raises", f"{key}:{label}", {"error": repr(e)[:200]})
            continue
        count("FORM", key)
        rec.evaluations += 1
        rec.count("form_sibling_evaluated")
        try:
            want = tf(res)
        except Exception:
            continue
        bad = compare(want, r)
        if bad is not None:
            report("FORM", "sibling-value", f"{key}:{label}",
                   dict(bad, variant=f"{label} against {name} on the same object and arguments"))


def run(fn, name, key, res, pre, state, report, count):
    """called by the boundary wrapper after a successful call. pre = clone taken *before* the
    call (receiver and arguments in the state the call saw them)."""
    from jax import numpy as jnp

    rec = state.rec
    self0, args0, kwargs0 = pre
    n_call = _counts.get(key, 0)
    # ---- numpy variant
    made = []
    if not (n_call <= FIRST or n_call % EVERY == 0):
        made = None
    try:
        if made is not None:
            s_np = clone_np(self0, made)
            a_np = clone_np(args0, made)
            k_np = clone_np(kwargs0, made)
    except Exception:
        made = None
    if made:
        try:
            r_np = fn(s_np, *a_np, **k_np)
        except Exception as e:
            rec.count("form_unsupported:numpy")
            if len(rec.notes) < 8:
                rec.notes.append(f"FORM numpy unsupported at {key}: {type(e).__name__}")
            r_np = None
        else:
            count("FORM", key)
            rec.evaluations += 1
            bad = compare(res, r_np)
            if bad is not None:
                report("FORM", "numpy-value", key, dict(bad, variant="every array as numpy.ndarray"))
            for (arr, pristine) in made:
                if not np.array_equal(arr, pristine, equal_nan=True):
                    report("FORM", "numpy-operand-written", key,
                           {"before": pristine, "after": arr.copy(),
                            "variant": "an array handed to the library was modified in place"})
                    break
    # ---- jit variant: the same call traced and compiled, receiver and numeric arguments as
    # traced arguments (pytrees), everything else (strings, index arrays, flags) closed over
    if n_call <= FIRST_JIT and _jit_selected(key):
        _run_jit(fn, key, res, self0, args0, kwargs0, rec, report, count)
    # ---- recall and sibling variants
    if n_call <= FIRST or n_call % EVERY == 0:
        if _is_libobj(self0):
            _run_recall(fn, key, res, self0, args0, kwargs0, rec, report, count)
            _run_siblings(name, key, res, self0, args0, kwargs0, rec, report, count)
    # ---- int variant
    cands = _candidates(self0, args0, kwargs0)
    if not cands:
        return
    n = _counts.get(("int", key), 0)
    _counts[("int", key)] = n + 1
    cand = cands[n % len(cands)]
    try:
        r = _round(np.asarray(_get(self0, args0, kwargs0, cand)), cand[2])
    except Exception:
        r = None
    if r is None:
        rec.count("form_int_not_roundable")
        return
    label = f"{cand[1][0]}{'' if cand[1][1] is None else cand[1][1]}" + (
        f".{cand[2]}" if cand[2] else "")
    try:
        sb, ab, kb = _substitute(self0, args0, kwargs0, cand, jnp.asarray(r, dtype=jnp.float64))
        r_base = fn(sb, *ab, **kb)
        if not all_finite(r_base):
            rec.count("form_int_base_nonfinite")
            return
    except Exception:
        rec.count("form_int_base_raises")
        return
    try:
        si, ai, ki = _substitute(self0, args0, kwargs0, cand,
                                 jnp.asarray(r.astype(np.int64), dtype=jnp.int64))
        r_int = fn(si, *ai, **ki)
    except Exception as e:
        rec.count("form_unsupported:int")
        if len(rec.notes) < 8:
            rec.notes.append(f"FORM int unsupported at {key} [{label}]: {type(e).__name__}")
        return
    count("FORM", key)
    rec.evaluations += 1
    bad = compare(r_base, r_int)
    if bad is not None:
        report("FORM", "int-value", f"{key}:{label.split('.')[-1] if cand[2] else 'array'}",
               dict(bad, input=label, variant="integer-valued input as int64 vs float64"))
