"""FORM: input-form invariance monitor (differential re-execution at the API boundary).

The properties quantify over values ("for every measure u, every point x ..."), not over the
container the values arrive in. For a sample of the boundary calls a workload makes, the very same
method of the real library is executed again on

* ``numpy``: a clone of the receiver and of every argument in which each array is a NumPy
  float64 array instead of a jax array (the library stores what it is given unconverted). The
  result must equal the original result, and no NumPy array handed in may be written to (an
  in-place ``+=`` on an operand is invisible with immutable jax arrays);
* ``int``: one numeric input - an array argument, or one defining field (mean, offset, map,
  covariance, information vector) of the receiver or of an object argument, rebuilt through its
  public constructor - is rounded to integers and passed once as float64 and once as int64. The
  two results must agree (silent truncation of an offset, a buffer allocated with the dtype of an
  integer operand).

Both sides of each comparison are executions of the library; the comparison needs no oracle and
no domain guard beyond "the float64 run returned finite values". A form the library does not
accept (the alternative run raises while the float64 run does not) is counted
``form_unsupported`` and is not a violation: the documented argument type is a jax float array.
"""
import dataclasses

import numpy as np

SKIP_METHODS = {"__init__", "__post_init__", "update", "normalize", "update_Sigma", "update_phi",
                "compute_lnZ", "invert_lambda", "compute_mu", "_prepare_integration",
                "from_dict", "to_dict", "slice", "R", "D", "Dx", "Dy"}
FIRST = 2      # numpy variant: the first FIRST boundary calls of every (Class.method[flags]) key
FIRST_INT = 8  # int variant: the first FIRST_INT calls (it cycles through the roundable inputs)
EVERY = 25     # ... and every EVERY-th one afterwards (both variants)
FIRST_JIT = 1  # jit variant: the first call of a key (tracing and compiling is the expensive part)
JIT_MOD = 1    # ... for the keys whose hash is 0 modulo JIT_MOD (set by the worker per tier)
JIT_UNSUPPORTED_CLASSES = {"LSEMGaussianConditional"}
TOL = 1e-8

_counts = {}


def _lib():
    from . import hooks

    return hooks._lib()


def _is_jax(a):
    import jax

    return isinstance(a, jax.Array)


def _is_tracer(a):
    import jax

    return isinstance(a, jax.core.Tracer)


def _is_libobj(o):
    return dataclasses.is_dataclass(o) and not isinstance(o, type) and type(o).__module__.startswith(
        "gaussian_toolbox")


def has_tracer(o, depth=0):
    if _is_tracer(o):
        return True
    if depth > 3:
        return False
    if isinstance(o, (list, tuple)):
        return any(has_tracer(x, depth + 1) for x in o)
    if isinstance(o, dict):
        return any(has_tracer(x, depth + 1) for x in o.values())
    if _is_libobj(o):
        return any(has_tracer(x, depth + 1) for x in o.__dict__.values())
    return False


# ------------------------------------------------------------------ numpy clones
def clone_np(o, made, depth=0):
    """deep clone with every floating jax array replaced by a writeable NumPy copy. `made`
    collects (array, pristine copy, label) for the in-place-write check."""
    if _is_jax(o):
        if np.issubdtype(o.dtype, np.floating):
            a = np.array(o, dtype=np.float64)
            made.append((a, a.copy()))
            return a
        return o
    if depth > 4:
        return o
    if isinstance(o, tuple):
        return tuple(clone_np(x, made, depth + 1) for x in o)
    if isinstance(o, list):
        return [clone_np(x, made, depth + 1) for x in o]
    if isinstance(o, dict) and not _is_libobj(o):
        return {k: clone_np(v, made, depth + 1) for k, v in o.items()}
    if _is_libobj(o):
        c = object.__new__(type(o))
        for k, v in o.__dict__.items():
            object.__setattr__(c, k, clone_np(v, made, depth + 1))
        return c
    return o


# ------------------------------------------------------------------ result comparison
def _leaves(o, path, out, depth=0):
    if o is None or callable(o) and not _is_libobj(o):
        return
    if hasattr(o, "shape") and hasattr(o, "dtype"):
        out[path] = np.asarray(o)
        return
    if isinstance(o, (bool, int, float)):
        out[path] = np.asarray(float(o))
        return
    if depth > 4:
        return
    if isinstance(o, (list, tuple)):
        for i, x in enumerate(o):
            _leaves(x, f"{path}[{i}]", out, depth + 1)
    elif isinstance(o, dict) and not _is_libobj(o):
        for k, v in o.items():
            _leaves(v, f"{path}[{k!r}]", out, depth + 1)
    elif _is_libobj(o):
        out[path + ":class"] = type(o).__name__
        for k, v in o.__dict__.items():
            _leaves(v, f"{path}.{k}", out, depth + 1)


def compare(ref, alt, probe=None):
    """first disagreement between two results (None if they agree). Only leaves present on both
    sides are compared (a lazily filled cache may exist on one side only). probe: a third result,
    obtained from inputs perturbed at the 1e-14 level - its distance v from ref measures how far
    rounding alone moves each leaf; 10 v + 10 (v / 1e-14 scale)^2 eps scale is added to the
    tolerance."""
    a, b, c = {}, {}, {}
    _leaves(ref, "result", a)
    _leaves(alt, "result", b)
    if probe is not None:
        _leaves(probe, "result", c)
    for k, va in a.items():
        if k not in b:
            continue
        vb = b[k]
        if isinstance(va, str) or isinstance(vb, str):
            if va != vb:
                return {"leaf": k, "ref": va, "alt": vb}
            continue
        if va.shape != vb.shape:
            return {"leaf": k, "ref_shape": list(va.shape), "alt_shape": list(vb.shape)}
        if va.dtype.kind not in "fiub" or vb.dtype.kind not in "fiub":
            continue
        fa, fb = va.astype(float), vb.astype(float)
        fin = np.isfinite(fa)
        if not np.array_equal(fin, np.isfinite(fb)):
            return {"leaf": k, "error": "finite pattern differs", "ref": fa, "alt": fb}
        if not fin.any():
            continue
        scale = 1.0 + float(np.max(np.abs(fa[fin])))
        err = float(np.max(np.abs(fa[fin] - fb[fin])))
        tol = TOL * scale
        if probe is not None:
            vc = c.get(k)
            if vc is None or isinstance(vc, str) or vc.shape != va.shape:
                continue  # sensitivity unknown: not judged
            fc = vc.astype(float)
            if not np.all(np.isfinite(fc[fin])):
                continue
            v = float(np.max(np.abs(fa[fin] - fc[fin])))
            # v / (1e-14 scale) estimates the condition number of the call; formulas that go
            # through an explicit inverse (as the library's do) have a forward rounding error of
            # up to cond^2 eps, so two differently rounded executions may differ by that much
            tol += 10.0 * v + 10.0 * 1e12 * v * v / scale
        if err > tol:
            return {"leaf": k, "max_abs_err": err, "err_over_tol": err / tol,
                    "ref": fa, "alt": fb}
    return None


def perturbed(o, rng, depth=0):
    """clone with every float array multiplied entry-wise by 1 + 1e-14 N(0,1) (symmetric noise
    for square trailing dimensions, so covariances stay symmetric)."""
    from jax import numpy as jnp

    if _is_jax(o) and np.issubdtype(o.dtype, np.floating):
        a = np.asarray(o, dtype=np.float64)
        n = rng.standard_normal(a.shape)
        if a.ndim >= 2 and a.shape[-1] == a.shape[-2]:
            n = 0.5 * (n + np.swapaxes(n, -1, -2))
        return jnp.asarray(a * (1.0 + 1e-14 * n))
    if depth > 4:
        return o
    if isinstance(o, tuple):
        return tuple(perturbed(x, rng, depth + 1) for x in o)
    if isinstance(o, list):
        return [perturbed(x, rng, depth + 1) for x in o]
    if isinstance(o, dict) and not _is_libobj(o):
        return {k: perturbed(v, rng, depth + 1) for k, v in o.items()}
    if _is_libobj(o):
        c = object.__new__(type(o))
        for k, v in o.__dict__.items():
            object.__setattr__(c, k, perturbed(v, rng, depth + 1))
        return c
    return o


def all_finite(res):
    a = {}
    _leaves(res, "r", a)
    for v in a.values():
        if not isinstance(v, str) and v.dtype.kind == "f" and not np.all(np.isfinite(v)):
            return False
    return True


# ------------------------------------------------------------------ integer variant
def _rebuilders():
    factor, measure, pdf, conditional, approx, trunc = _lib()
    return {
        pdf.GaussianPDF: ("Sigma", "mu"),
        pdf.GaussianDiagPDF: ("Sigma", "mu"),
        measure.GaussianMeasure: ("Lambda", "nu", "ln_beta"),
        measure.GaussianDiagMeasure: ("Lambda", "nu", "ln_beta"),
        factor.ConjugateFactor: ("Lambda", "nu", "ln_beta"),
        factor.LinearFactor: ("nu", "ln_beta"),
        factor.OneRankFactor: ("v", "g", "nu", "ln_beta"),
        conditional.ConditionalGaussianPDF: ("M", "b", "Sigma"),
        conditional.ConditionalGaussianDiagPDF: ("M", "b", "Sigma"),
        conditional.ConditionalIdentityGaussianPDF: ("Sigma",),
        conditional.ConditionalIdentityDiagGaussianPDF: ("Sigma",),
    }


MATRIX_FIELDS = ("Sigma", "Lambda")


def _round(a, field=None):
    """integer-valued float64 version of a (None if that cannot stay a valid input)."""
    a = np.asarray(a, dtype=float)
    if a.size == 0 or not np.all(np.isfinite(a)):
        return None
    m = float(np.max(np.abs(a)))
    if field in MATRIX_FIELDS:
        if a.ndim != 3 or a.shape[-1] != a.shape[-2]:
            return None
        w = np.linalg.eigvalsh(0.5 * (a + np.swapaxes(a, -1, -2)))
        if np.any(w <= 0):
            return None  # (a singular precision of a plain factor is left alone)
        s = 8.0 / float(np.min(w))
        if s * m > 1e6:
            return None
        r = np.rint(a * s)
        r = 0.5 * (r + np.swapaxes(r, -1, -2))
        if np.any(r != np.rint(r)) or np.any(np.linalg.eigvalsh(r) < 1.0):
            return None
        return r
    if m == 0.0:
        return a.copy()
    s = 1.0 if m >= 4.0 else 7.0 / m
    if s * m > 1e9:
        return None
    return np.rint(a * s)


def _candidates(self, args, kwargs):
    """(kind, where, field) of every numeric input that can be rounded."""
    reb = _rebuilders()
    out = []

    def obj_fields(o, where):
        fields = reb.get(type(o))
        if not fields:
            return
        for f in fields:
            v = o.__dict__.get(f)
            if v is not None and hasattr(v, "dtype") and np.issubdtype(v.dtype, np.floating):
                out.append(("obj", where, f))

    obj_fields(self, ("self", None))
    for i, a in enumerate(args):
        if _is_libobj(a):
            obj_fields(a, ("arg", i))
        elif hasattr(a, "dtype") and hasattr(a, "ndim") and a.ndim >= 1 and np.issubdtype(
                a.dtype, np.floating):
            out.append(("array", ("arg", i), None))
    for k, a in kwargs.items():
        if _is_libobj(a):
            obj_fields(a, ("kw", k))
        elif hasattr(a, "dtype") and hasattr(a, "ndim") and a.ndim >= 1 and np.issubdtype(
                a.dtype, np.floating):
            out.append(("array", ("kw", k), None))
    return out


def _rebuild(o, field, value):
    from jax import numpy as jnp

    fields = _rebuilders()[type(o)]
    kw = {}
    for f in fields:
        v = o.__dict__.get(f)
        if v is None:
            continue
        kw[f] = value if f == field else v
    if hasattr(o, "num_dim") and "num_dim" in {f.name for f in dataclasses.fields(o) if f.init}:
        kw["num_dim"] = o.num_dim
    return type(o)(**{k: (jnp.asarray(v) if isinstance(v, np.ndarray) else v)
                      for k, v in kw.items()})


def _substitute(self, args, kwargs, cand, value):
    kind, (place, key), field = cand
    args = list(args)
    kwargs = dict(kwargs)

    def put(new):
        nonlocal self
        if place == "self":
            self = new
        elif place == "arg":
            args[key] = new
        else:
            kwargs[key] = new

    if kind == "array":
        put(value)
    else:
        o = self if place == "self" else (args[key] if place == "arg" else kwargs[key])
        put(_rebuild(o, field, value))
    return self, tuple(args), kwargs


def _get(self, args, kwargs, cand):
    kind, (place, key), field = cand
    o = self if place == "self" else (args[key] if place == "arg" else kwargs[key])
    return o if kind == "array" else o.__dict__[field]


# ------------------------------------------------------------------ driver
def key_of(key, flags, self, args, kwargs):
    """the sampling key of a boundary call: method, flags, the classes of its object arguments
    (a rank-one, a constant and a general factor are different entry points of multiply) and a
    structure tag for exactly isotropic covariances / precisions (repeated eigenvalues)."""
    objs = [a for a in list(args) + list(kwargs.values()) if _is_libobj(a)]
    tag = ",".join(type(a).__name__ for a in objs)
    iso = False
    for o in [self] + objs:
        if not _is_libobj(o):
            continue
        for nme in ("Sigma", "Lambda"):
            a = o.__dict__.get(nme)
            if a is None or _is_tracer(a) or getattr(a, "ndim", 0) != 3 or a.shape[-1] < 2:
                continue
            a = np.asarray(a)
            d = np.diagonal(a, axis1=-2, axis2=-1)
            if np.any(np.all(d == d[..., :1], axis=-1) & (np.abs(a).sum((-1, -2)) == np.abs(d).sum(-1))):
                iso = True
    # the cache state of the receiver is part of the path taken (lazy inversion, light variants)
    cold = ""
    if _is_libobj(self) and "Lambda" in self.__dict__ and "nu" in self.__dict__:
        missing = [n for n in ("Sigma", "lnZ") if self.__dict__.get(n, 0) is None]
        if missing:
            cold = "{no " + ",".join(missing) + "}"
    return f"{key}[{flags}]" + (f"({tag})" if tag else "") + ("{iso}" if iso else "") + cold


def selected(key):
    n = _counts.get(key, 0) + 1
    _counts[key] = n
    return n <= FIRST_INT or n % EVERY == 0


def clone_state(o, depth=0):
    """the receiver / arguments as the call is about to see them (arrays are immutable: shared)."""
    if depth > 4:
        return o
    if isinstance(o, tuple):
        return tuple(clone_state(x, depth + 1) for x in o)
    if isinstance(o, list):
        return [clone_state(x, depth + 1) for x in o]
    if isinstance(o, dict) and not _is_libobj(o):
        return {k: clone_state(v, depth + 1) for k, v in o.items()}
    if _is_libobj(o):
        c = object.__new__(type(o))
        for k, v in o.__dict__.items():
            object.__setattr__(c, k, clone_state(v, depth + 1))
        return c
    return o


def _jit_selected(key):
    import zlib

    return JIT_MOD <= 1 or zlib.crc32(key.encode()) % JIT_MOD == 0


def _is_dynamic(a):
    if _is_libobj(a):
        return True
    return hasattr(a, "dtype") and hasattr(a, "ndim") and np.issubdtype(a.dtype, np.floating)


def _worst_condition(*objs):
    """largest condition number among the symmetric [.., D, D] float leaves (covariances and
    precisions of operands and results; inf for an indefinite one)."""
    worst = 1.0
    for o in objs:
        leaves = {}
        _leaves(o, "o", leaves)
        for k, a in leaves.items():
            if isinstance(a, str) or a.dtype.kind != "f" or a.ndim < 2 or a.shape[-1] != a.shape[-2] \
                    or a.shape[-1] < 2 or not np.all(np.isfinite(a)):
                continue
            if not np.allclose(a, np.swapaxes(a, -1, -2), rtol=1e-6, atol=0.0):
                continue
            w = np.linalg.eigvalsh(0.5 * (a + np.swapaxes(a, -1, -2)).reshape(-1, *a.shape[-2:]))
            if np.any(w[:, -1] <= 0):
                continue  # a singular precision of a plain factor: nothing is inverted
            nz = w[:, 0] > 1e-13 * w[:, -1]  # exactly rank-deficient precisions are by design
            if np.any(nz):
                worst = max(worst, float(np.max((w[:, -1] / np.where(nz, w[:, 0], 1.0))[nz])))
    return worst


def _calm_inputs(*objs):
    """every float entry of the operands is at most 1e3 in magnitude and every covariance /
    precision among them has its eigenvalues within [1e-3, 1e3]: the regime in which a finite
    difference, or the comparison of two differently rounded executions, can resolve 1e-8
    (hostile scales and far-away means make the library's documented information-form and
    natural-parameter formulas cancel at the level of the quantity itself - the value oracles
    account for that term by term, a generic monitor cannot)."""
    for o in objs:
        leaves = {}
        _leaves(o, "o", leaves)
        for k, a in leaves.items():
            if isinstance(a, str) or a.dtype.kind != "f" or a.size == 0:
                continue
            fin = np.isfinite(a)
            if fin.any() and float(np.max(np.abs(a[fin]))) > 1e3:
                return False
            if a.ndim >= 2 and a.shape[-1] == a.shape[-2] and fin.all() and np.allclose(
                    a, np.swapaxes(a, -1, -2), rtol=1e-6, atol=0.0):
                w = np.linalg.eigvalsh(0.5 * (a + np.swapaxes(a, -1, -2)))
                pos = w > 1e-13 * np.max(np.abs(w), axis=-1, keepdims=True)
                if np.any(w[pos] < 1e-3):
                    return False
    return True


def _calm_outputs(res):
    """no entry of the result beyond 1e6 in magnitude (a normaliser 1/Z of a far-tail interval
    with Z = 1e-16 is computed from a cancelling difference: the value oracle of C20 excludes
    that regime explicitly, a generic monitor by magnitude)."""
    leaves = {}
    _leaves(res, "r", leaves)
    for a in leaves.values():
        if isinstance(a, str) or a.dtype.kind != "f" or a.size == 0:
            continue
        fin = np.isfinite(a)
        if fin.any() and float(np.max(np.abs(a[fin]))) > 1e6:
            return False
    return True


def _run_jit(fn, key, res, self0, args0, kwargs0, rec, report, count):
    import jax

    if not _is_libobj(self0):
        return
    if not _calm_inputs(self0, args0, kwargs0) or not _calm_outputs(res):
        rec.count("form_jit_out_of_domain")
        return
    # differently rounded executions of an information-form update agree to about eps times the
    # condition number of the matrices it inverts: judged where that stays below 1e-8 (the same
    # kind of guard the value oracles use; the unstable cases are theirs to exclude or judge)
    if _worst_condition(self0, args0, kwargs0, res) > 1e6:
        rec.count("form_jit_out_of_domain")
        return
    pos = [i for i, a in enumerate(args0) if _is_dynamic(a)]
    kws = [k for k, a in kwargs0.items() if _is_dynamic(a)]

    def f(s, dyn_a, dyn_k):
        a = list(args0)
        for i, v in zip(pos, dyn_a):
            a[i] = v
        k = dict(kwargs0)
        for n, v in zip(kws, dyn_k):
            k[n] = v
        return fn(s, *a, **k)

    try:
        r_jit = jax.jit(f)(self0, [args0[i] for i in pos], [kwargs0[k] for k in kws])
    except Exception as e:
        import os
        if os.environ.get("GT_FORM_LOG"):
            with open(os.environ["GT_FORM_LOG"], "a") as fh:
                fh.write(f"jit\t{key}\t{type(e).__name__}\t{str(e)[:120]!r}\n")
        # what cannot cross a jit boundary on the current tree (measured over all checks): the
        # squared-exponential feature model as an argument, and results that are Python callables
        if type(self0).__name__ in JIT_UNSUPPORTED_CLASSES or "not a valid JAX type" in str(e) \
                or (callable(res) and not _is_libobj(res)):
            rec.count("form_unsupported:jit")
            if len(rec.notes) < 8:
                rec.notes.append(f"FORM jit unsupported at {key}: {type(e).__name__}")
            return
        from . import core
        count("FORM", key)
        report("FORM", "jit-raises", key, {"exc": core.exc_info(e), "variant": "the eager call "
                                           "returned; the same call under jax.jit raises"})
        return
    # compiled code rounds differently (fusion, other reduction orders): the distance the
    # eager result itself moves under a 1e-14 perturbation of the inputs is the yardstick
    try:
        prng = np.random.default_rng(12345)
        r_pert = fn(perturbed(self0, prng), *perturbed(args0, prng), **perturbed(kwargs0, prng))
    except Exception:
        rec.count("form_jit_probe_raises")
        return
    count("FORM", key)
    rec.evaluations += 1
    rec.count("form_jit_evaluated")
    bad = compare(res, r_jit, probe=r_pert)
    if bad is not None:
        report("FORM", "jit-value", key, dict(bad, variant="the same call under jax.jit with "
                                              "receiver and numeric arguments traced"))


def _run_grad(fn, key, res, self0, args0, kwargs0, rec, report, count):
    """reverse-mode gradient of a fixed random linear functional of the result with respect to
    every float leaf of receiver and arguments: finite wherever inputs and outputs are, and its
    directional derivative along a random direction equals a Richardson-extrapolated central
    difference of the eager call (a NaN-producing dead branch of a where, a stop_gradient or a
    custom derivative rule in the wrong place leave values untouched and only show here)."""
    import jax
    from jax import numpy as jnp

    if not _is_libobj(self0) or (callable(res) and not _is_libobj(res)) or not all_finite(res):
        return
    if _worst_condition(self0, args0, kwargs0, res) > 1e6 or not _calm_inputs(
            self0, args0, kwargs0) or not _calm_outputs(res):
        rec.count("form_grad_out_of_domain")
        return
    pos = [i for i, a in enumerate(args0) if _is_dynamic(a)]
    kws = [k for k, a in kwargs0.items() if _is_dynamic(a)]
    # objects enter through their *defining* parameters and are rebuilt by their public constructor
    # inside the differentiated function (derived fields - precision next to covariance, log-
    # determinants, natural parameters - are recomputed consistently, as in user code that builds
    # the object from parameters it optimises); other objects and arrays through their pytree leaves
    reb = _rebuilders()
    slots, leaves = [], []

    def add(o):
        fields = reb.get(type(o)) if _is_libobj(o) else None
        if fields:
            names = [f for f in fields if o.__dict__.get(f) is not None]
            vals = [o.__dict__[f] for f in names]
            extra = {"num_dim": o.num_dim} if hasattr(o, "num_dim") else {}
            n0 = len(leaves)
            leaves.extend(vals)
            slots.append(lambda ls, n0=n0, names=names, cls=type(o), extra=extra: cls(
                **dict(zip(names, ls[n0:n0 + len(names)])), **extra))
        else:
            lv, td = jax.tree_util.tree_flatten(o)
            n0 = len(leaves)
            leaves.extend(lv)
            slots.append(lambda ls, n0=n0, n=len(lv), td=td: jax.tree_util.tree_unflatten(
                td, ls[n0:n0 + n]))

    try:
        add(self0)
        for i in pos:
            add(args0[i])
        for k in kws:
            add(kwargs0[k])
    except Exception:
        rec.count("form_unsupported:grad")
        return
    if not leaves or not all(hasattr(l, "dtype") and np.issubdtype(l.dtype, np.floating)
                             for l in leaves):
        rec.count("form_unsupported:grad")
        return
    leaves = [jnp.asarray(l, dtype=jnp.float64) for l in leaves]
    # leaves with non-finite entries (an infinite truncation limit) are constants of the call
    active = [i for i, l in enumerate(leaves) if bool(np.all(np.isfinite(np.asarray(l))))]
    const = list(leaves)

    def scalar(act):
        ls = list(const)
        for i, v in zip(active, act):
            ls[i] = v
        objs = [b(ls) for b in slots]
        s, dyn_a, dyn_k = objs[0], objs[1:1 + len(pos)], objs[1 + len(pos):]
        a = list(args0)
        for i, v in zip(pos, dyn_a):
            a[i] = v
        k = dict(kwargs0)
        for n, v in zip(kws, dyn_k):
            k[n] = v
        r = fn(s, *a, **k)
        tot = 0.0
        for j, leaf in enumerate(jax.tree_util.tree_leaves(r)):
            if hasattr(leaf, "dtype") and jnp.issubdtype(leaf.dtype, jnp.floating):
                w = np.random.default_rng(1000 + j).uniform(0.5, 1.5, np.shape(leaf))
                tot = tot + jnp.sum(w * leaf)
        return tot

    leaves = [leaves[i] for i in active]
    if not leaves:
        return
    try:
        f0 = float(scalar(leaves))
        g = jax.grad(scalar)(leaves)
    except Exception as e:
        rec.count("form_unsupported:grad")
        if len(rec.notes) < 8:
            rec.notes.append(f"FORM grad unsupported at {key}: {type(e).__name__}")
        return
    if not np.isfinite(f0):
        return
    count("FORM", key)
    rec.evaluations += 1
    rec.count("form_grad_evaluated")
    g = [np.asarray(x, dtype=float) for x in g]
    g_finite = all(np.all(np.isfinite(x)) for x in g)
    rng = np.random.default_rng(777)
    d = []
    for l in leaves:
        a = np.asarray(l, dtype=float)
        n = rng.standard_normal(a.shape)
        if a.ndim >= 2 and a.shape[-1] == a.shape[-2]:
            n = 0.5 * (n + np.swapaxes(n, -1, -2))
            n = n * (a != 0)  # keep the structure of diagonal matrices
        d.append(n * (np.abs(a) + 1e-3 * (np.max(np.abs(a)) if a.size else 0.0)))
    gd = float(sum(np.sum(x * y) for x, y in zip(g, d))) if g_finite else float("nan")
    nat = float(sum(np.sum(np.abs(x) * np.abs(y)) for x, y in zip(g, d))) if g_finite else 0.0

    def at(h):
        return float(scalar([l + h * jnp.asarray(y) for l, y in zip(leaves, d)]))

    try:
        h = 1e-5
        d1 = (at(h) - at(-h)) / (2 * h)
        d2 = (at(h / 2) - at(-h / 2)) / h
    except Exception:
        rec.count("form_grad_fd_raises")
        return
    if not (np.isfinite(d1) and np.isfinite(d2)):
        rec.count("form_grad_fd_nonfinite")
        return
    fd = (4 * d2 - d1) / 3
    if not g_finite:
        # the function is differentiable along the direction (the differences are finite and
        # agree) but reverse mode returns NaN / inf: a dead branch poisoning the cotangent
        if abs(d2 - d1) <= 1e-3 * (abs(d1) + abs(d2)) + 1e-9 * (1 + abs(f0)):
            bad = [i for i, x in enumerate(g) if not np.all(np.isfinite(x))]
            report("FORM", "grad-nonfinite", key,
                   {"leaves_with_nonfinite_gradient": bad, "value": f0, "finite_difference": fd,
                    "variant": "jax.grad of a linear functional of the result; inputs, value and "
                               "central differences finite"})
        else:
            rec.count("form_grad_fd_unresolved")
        return
    tol = 1e-4 * (abs(fd) + abs(gd)) + 20 * abs(d2 - d1) + 1e-7 * nat + 1e-9 * (1 + abs(f0))
    if abs(gd - fd) > tol:
        report("FORM", "grad-value", key,
               {"grad_dot_direction": gd, "finite_difference": fd, "fd_h": d1, "fd_h_half": d2,
                "err_over_tol": abs(gd - fd) / tol,
                "variant": "directional derivative from jax.grad vs Richardson central difference"})


# ------------------------------------------------------------------ recall and sibling variants
def _alt_value(a):
    """another legal value of the same shape and type (None if this argument is left alone)."""
    from jax import numpy as jnp

    if _is_libobj(a):
        fields = _rebuilders().get(type(a))
        if not fields:
            return None
        for f, g in (("mu", lambda v: v * 0.7 + 0.3), ("nu", lambda v: v * 0.7 + 0.3),
                     ("b", lambda v: v * 0.7 + 0.3)):
            if f in fields and a.__dict__.get(f) is not None:
                try:
                    o = _rebuild(a, f, jnp.asarray(g(np.asarray(a.__dict__[f], dtype=float))))
                    for m in ("Sigma", "Lambda"):  # and another spread, where there is one
                        if m in fields and o.__dict__.get(m) is not None:
                            o = _rebuild(o, m, jnp.asarray(np.asarray(o.__dict__[m], float) * 1.9))
                            break
                    return o
                except Exception:
                    return None
        return None
    if not (hasattr(a, "dtype") and hasattr(a, "ndim")) or a.ndim == 0:
        return None
    if np.issubdtype(a.dtype, np.floating):
        return jnp.asarray(np.asarray(a) * 1.37 + 0.11)
    if np.issubdtype(a.dtype, np.integer) and a.ndim == 1 and a.shape[0] > 1:
        return jnp.asarray(np.asarray(a)[::-1].copy())
    return None


def _alt_args(args, kwargs, which):
    """the same call with other values in some of the arguments. which = 0: all that can be
    varied; which = k > 0: only the k-th variable argument (the others stay the very same
    objects - a memo keyed by the identity or value of *some* arguments)."""
    slots = [("a", i) for i in range(len(args))] + [("k", k) for k in kwargs]
    alts = {}
    for s in slots:
        v = _alt_value(args[s[1]] if s[0] == "a" else kwargs[s[1]])
        if v is not None:
            alts[s] = v
    if not alts:
        return None
    keys = list(alts)
    if which > 0:
        keys = [keys[(which - 1) % len(keys)]]
    a2 = list(args)
    k2 = dict(kwargs)
    for s in keys:
        if s[0] == "a":
            a2[s[1]] = alts[s]
        else:
            k2[s[1]] = alts[s]
    return tuple(a2), k2


def _run_recall(fn, key, res, self0, args0, kwargs0, rec, report, count):
    """on one clone: the call with other argument values first, then the original call again -
    the second answer must be the original answer (a memo keyed by too few of the arguments)."""
    n = _counts.get(("recall", key), 0)
    _counts[("recall", key)] = n + 1
    alt = _alt_args(args0, kwargs0, n)
    c = clone_state(self0)
    if alt is not None:
        try:
            fn(c, *alt[0], **alt[1])
        except Exception:
            rec.count("form_recall_alt_raises")
            return
    try:
        again = fn(c, *args0, **kwargs0)
        third = fn(c, *args0, **kwargs0)
    except Exception as e:
        report("FORM", "recall-raises", key, {"error": repr(e)[:200]})
        return
    count("FORM", key)
    rec.evaluations += 1
    rec.count("form_recall_evaluated")
    bad = compare(res, again)
    if bad is not None:
        report("FORM", "recall-value", key, dict(bad, variant="same call after a call with other "
                                                 "argument values on the same object"))
    # every call hands out fresh objects: the very object an earlier call returned, handed out
    # again, lets one caller's update / normalize / update_Sigma reach into the other's result
    first, second = [], []
    from . import hooks
    hooks._collect(again, first)
    hooks._collect(third, second)
    if any(o is p for o in first for p in second):
        report("FORM", "recall-same-object", key,
               {"variant": "two calls with the same arguments returned the very same object"})


# fields that may be exchanged with .replace(): exactly those whose derived quantities the
# constructors recompute (a covariance has its precision and log-determinant as further init
# fields: dataclasses.replace copies them, by design of that function)
REPLACE_FIELDS = {
    "GaussianMeasure": ("nu", "ln_beta"), "GaussianDiagMeasure": ("nu", "ln_beta"),
    # (not the densities: nu and ln_beta are init fields next to mu, replace(mu=...) copies them)
    "ConjugateFactor": ("Lambda", "nu", "ln_beta"), "LinearFactor": ("nu", "ln_beta"),
    "OneRankFactor": ("v", "g", "nu", "ln_beta"),
    "ConditionalGaussianPDF": ("M", "b"), "ConditionalGaussianDiagPDF": ("M", "b"),
    "HeteroscedasticExpConditional": ("M", "b", "A", "W"),
    "HeteroscedasticCoshM1Conditional": ("M", "b", "A", "W"),
    "HeteroscedasticHeavisideConditional": ("M", "b", "A", "W"),
    "HeteroscedasticReLUConditional": ("M", "b", "A", "W"),
    "NNControlGaussianConditional": ("Sigma",),
}
FRESH_FIELDS = {
    "HeteroscedasticExpConditional": ("M", "b", "A", "W"),
    "HeteroscedasticCoshM1Conditional": ("M", "b", "A", "W"),
    "HeteroscedasticHeavisideConditional": ("M", "b", "A", "W"),
    "HeteroscedasticReLUConditional": ("M", "b", "A", "W"),
    "NNControlGaussianConditional": ("Sigma", "num_cond_dim", "num_control_dim", "control_func"),
}


def _run_replace(fn, key, self0, args0, kwargs0, rec, report, count):
    """obj.replace(field=value) must behave like an object freshly built with that value: the call
    on the one and on the other give the same result (state that replace carries over although
    it belongs to the old value: memoised integrals, a precision kept next to new factors)."""
    from jax import numpy as jnp

    cname = type(self0).__name__
    fields = REPLACE_FIELDS.get(cname)
    if not fields or not hasattr(self0, "replace"):
        return
    # the fresh object recomputes its precision by Cholesky where the replaced one keeps the
    # stored one: two roundings of the same matrix, comparable at 1e-8 on calm inputs only
    if not _calm_inputs(self0, args0, kwargs0) or _worst_condition(self0, args0, kwargs0) > 1e6:
        rec.count("form_replace_out_of_domain")
        return
    n = _counts.get(("replace", key), 0)
    _counts[("replace", key)] = n + 1
    present = [f for f in fields if self0.__dict__.get(f) is not None]
    if not present:
        return
    f = present[n % len(present)]
    a = np.asarray(self0.__dict__[f], dtype=float)
    if f in ("Sigma", "Lambda"):
        new = a * 1.7
    elif f == "g":
        new = a * 0.6 + 0.2
    else:
        new = a * 0.8 + 0.15
    new = jnp.asarray(new)
    try:
        warm = clone_state(self0)
        try:
            fn(warm, *args0, **kwargs0)  # the object was in use before it is replaced
        except Exception:
            pass
        o_rep = warm.replace(**{f: new})
        base = FRESH_FIELDS.get(cname) or _rebuilders().get(type(self0))
        kw = {k: (new if k == f else self0.__dict__.get(k)) for k in base
              if k == f or self0.__dict__.get(k) is not None}
        if hasattr(self0, "num_dim") and cname == "ConstantFactor":
            kw["num_dim"] = self0.num_dim
        o_new = type(self0)(**kw)
        r_new = fn(o_new, *args0, **kwargs0)
    except Exception:
        rec.count("form_replace_setup_raises")
        return
    try:
        r_rep = fn(o_rep, *args0, **kwargs0)
    except Exception as e:
        report("FORM", "replace-raises", f"{key}:{f}", {"error": repr(e)[:200]})
        return
    count("FORM", key)
    rec.evaluations += 1
    rec.count("form_replace_evaluated")
    bad = compare(r_new, r_rep)
    if bad is not None:
        report("FORM", "replace-value", f"{key}:{f}",
               dict(bad, variant=f"call on obj.replace({f}=...) vs on a freshly built object"))


INTEGRATE_NAMES = {
    "1": "integral", "x": "integrate_x", "(Ax+a)": "integrate_general_linear",
    "xx'": "integrate_xxT", "(Ax+a)'(Bx+b)": "integrate_general_quadratic_inner",
    "(Ax+a)(Bx+b)'": "integrate_general_quadratic_outer",
    "(Ax+a)(Bx+b)'(Cx+c)": "integrate_general_cubic_inner",
    "(Ax+a)'(Bx+b)(Cx+c)'": "integrate_general_cubic_outer",
    "x(A'x + a)x'": "integrate_cubic_outer", "xb'xx'": "integrate_xbxx",
    "(Ax+a)'(Bx+b)(Cx+c)'(Dx+d)": "integrate_general_quartic_inner",
    "(Ax+a)(Bx+b)'(Cx+c)(Dx+d)'": "integrate_general_quartic_outer",
}


def _siblings(name, self0, args0, kwargs0):
    """[(label, thunk, transform of the original result)] - other public entry points that the
    documentation defines as the same quantity."""
    from jax import numpy as jnp

    factor, measure, pdf, conditional, approx, trunc = _lib()
    out = []
    ident = lambda r: r
    if isinstance(self0, trunc.TruncatedGaussianMeasure):
        return out
    if name == "evaluate_ln" and isinstance(self0, factor.ConjugateFactor):
        for sib in ("evaluate", "__call__"):
            out.append((sib, lambda c, sib=sib: getattr(c, sib)(*args0, **kwargs0), jnp.exp))
    elif name == "log_integral" and isinstance(self0, measure.GaussianMeasure):
        out.append(("log_integral_light", lambda c: c.log_integral_light(), ident))
        out.append(("integral", lambda c: c.integral(), jnp.exp))
        out.append(("integral_light", lambda c: c.integral_light(), jnp.exp))
        out.append(("integrate('1')", lambda c: c.integrate("1"), jnp.exp))
    elif name == "integrate" and isinstance(self0, measure.GaussianMeasure):
        expr = args0[0] if args0 else kwargs0.get("expr", "1")
        meth = INTEGRATE_NAMES.get(expr)
        kw = {k: v for k, v in kwargs0.items() if k != "expr"}
        if meth is not None:
            out.append((meth, lambda c: getattr(c, meth)(**kw), ident))
    elif name == "multiply" and isinstance(self0, measure.GaussianMeasure) and len(args0) == 1 \
            and not kwargs0.get("update_full", False):
        out.append(("__mul__", lambda c: c * args0[0], ident))
    elif name == "condition_on" and isinstance(self0, pdf.GaussianPDF) and len(args0) == 1:
        dy = np.asarray(args0[0])
        dx = np.array([i for i in range(self0.D) if i not in set(dy.tolist())])
        if dx.size and dy.size:
            out.append(("condition_on_explicit",
                        lambda c: c.condition_on_explicit(jnp.asarray(dy), jnp.asarray(dx)), ident))
    return out


def _run_siblings(name, key, res, self0, args0, kwargs0, rec, report, count):
    for label, thunk, tf in _siblings(name, self0, args0, kwargs0):
        c = clone_state(self0)
        try:
            r = thunk(c)
        except Exception as e:
            report("FORM", "sibling-raises", f"{key}:{label}", {"error": repr(e)[:200]})
            continue
        count("FORM", key)
        rec.evaluations += 1
        rec.count("form_sibling_evaluated")
        try:
            want = tf(res)
        except Exception:
            continue
        bad = compare(want, r)
        if bad is not None:
            report("FORM", "sibling-value", f"{key}:{label}",
                   dict(bad, variant=f"{label} against {name} on the same object and arguments"))


def run(fn, name, key, res, pre, state, report, count):
    """called by the boundary wrapper after a successful call. pre = clone taken *before* the
    call (receiver and arguments in the state the call saw them)."""
    from jax import numpy as jnp

    rec = state.rec
    self0, args0, kwargs0 = pre
    n_call = _counts.get(key, 0)
    # ---- numpy variant
    made = []
    if not (n_call <= FIRST or n_call % EVERY == 0):
        made = None
    try:
        if made is not None:
            s_np = clone_np(self0, made)
            a_np = clone_np(args0, made)
            k_np = clone_np(kwargs0, made)
    except Exception:
        made = None
    if made:
        try:
            r_np = fn(s_np, *a_np, **k_np)
        except Exception as e:
            rec.count("form_unsupported:numpy")
            if len(rec.notes) < 8:
                rec.notes.append(f"FORM numpy unsupported at {key}: {type(e).__name__}")
            r_np = None
        else:
            count("FORM", key)
            rec.evaluations += 1
            bad = compare(res, r_np)
            if bad is not None:
                report("FORM", "numpy-value", key, dict(bad, variant="every array as numpy.ndarray"))
            for (arr, pristine) in made:
                if not np.array_equal(arr, pristine, equal_nan=True):
                    report("FORM", "numpy-operand-written", key,
                           {"before": pristine, "after": arr.copy(),
                            "variant": "an array handed to the library was modified in place"})
                    break
    # ---- jit variant: the same call traced and compiled, receiver and numeric arguments as
    # traced arguments (pytrees), everything else (strings, index arrays, flags) closed over
    # (a call outside the calm-input domain does not use up the key's turn: up to 6 attempts)
    for tagv, runner in (("jit", _run_jit), ("grad", _run_grad)):
        done, tries = _counts.get((tagv, key), (0, 0))
        if done < FIRST_JIT and tries < 6 and _jit_selected(key):
            before = rec.counters.get(f"form_{tagv}_evaluated", 0)
            runner(fn, key, res, self0, args0, kwargs0, rec, report, count)
            ran = rec.counters.get(f"form_{tagv}_evaluated", 0) > before
            _counts[(tagv, key)] = (done + int(ran), tries + 1)
    # ---- recall and sibling variants
    if _is_libobj(self0) and (n_call <= FIRST_INT or n_call % EVERY == 0):
        _run_recall(fn, key, res, self0, args0, kwargs0, rec, report, count)
    if _is_libobj(self0) and (n_call <= FIRST_INT or n_call % EVERY == 0):
        _run_siblings(name, key, res, self0, args0, kwargs0, rec, report, count)
    if _is_libobj(self0) and (n_call <= FIRST_INT // 2 or n_call % EVERY == 0):
        _run_replace(fn, key, self0, args0, kwargs0, rec, report, count)
    # ---- int variant
    cands = _candidates(self0, args0, kwargs0)
    if not cands:
        return
    n = _counts.get(("int", key), 0)
    _counts[("int", key)] = n + 1
    cand = cands[n % len(cands)]
    try:
        r = _round(np.asarray(_get(self0, args0, kwargs0, cand)), cand[2])
    except Exception:
        r = None
    if r is None:
        rec.count("form_int_not_roundable")
        return
    label = f"{cand[1][0]}{'' if cand[1][1] is None else cand[1][1]}" + (
        f".{cand[2]}" if cand[2] else "")
    try:
        sb, ab, kb = _substitute(self0, args0, kwargs0, cand, jnp.asarray(r, dtype=jnp.float64))
        r_base = fn(sb, *ab, **kb)
        if not all_finite(r_base):
            rec.count("form_int_base_nonfinite")
            return
    except Exception:
        rec.count("form_int_base_raises")
        return
    try:
        si, ai, ki = _substitute(self0, args0, kwargs0, cand,
                                 jnp.asarray(r.astype(np.int64), dtype=jnp.int64))
        r_int = fn(si, *ai, **ki)
    except Exception as e:
        rec.count("form_unsupported:int")
        if len(rec.notes) < 8:
            rec.notes.append(f"FORM int unsupported at {key} [{label}]: {type(e).__name__}")
        return
    count("FORM", key)
    rec.evaluations += 1
    bad = compare(r_base, r_int)
    if bad is not None:
        report("FORM", "int-value", f"{key}:{label.split('.')[-1] if cand[2] else 'array'}",
               dict(bad, input=label, variant="integer-valued input as int64 vs float64"))

