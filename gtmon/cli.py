import argparse
import os
import sys

sys.path.insert(0, os.path.dirname(os.path.dirname(os.path.abspath(__file__))))
from gtmon import runner  # noqa: E402


def main():
    ap = argparse.ArgumentParser()
    ap.add_argument("prop")
    ap.add_argument("--tier", default=os.environ.get("VERIF_TIER", "quick"))
    ap.add_argument("--seed", type=int, default=int(os.environ.get("VERIF_SEED", "0")))
    ap.add_argument("--replay")
    ap.add_argument("--only")
    ap.add_argument("--shards", type=int)
    a = ap.parse_args()
    sys.exit(runner.run(a.prop, a.tier, a.seed, replay=a.replay, nshards=a.shards, only=a.only))


if __name__ == "__main__":
    main()
