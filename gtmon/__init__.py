"""gtmon - runtime monitors for christiando/gaussian-toolbox (see ../DESIGN.md)."""
