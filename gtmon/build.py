"""Builders: library objects together with their NumPy ground truth.

Ground truth is what the *generator* chose (Lambda, nu, ln_beta or mu, Sigma, or M, b,
Sigma), never read back from the library object.
"""
import numpy as np

from . import gen
from . import oracles as orc
from .gen import J


def lib():
    from gaussian_toolbox import (approximate_conditional, conditional, factor, measure,
                                  pdf)

    class NS:
        pass

    ns = NS()
    ns.factor, ns.measure, ns.pdf, ns.conditional, ns.approx = (
        factor, measure, pdf, conditional, approximate_conditional)
    return ns


FACTOR_KINDS = ("general", "rank1", "linear", "constant", "measure", "pdf", "diag_measure",
                "diag_pdf")
MEASURE_KINDS = ("measure", "pdf", "diag_measure", "diag_pdf")


class Truth(dict):
    """dict with attribute access: Lambda, nu, ln_beta (+ mu, Sigma when PD)."""
    __getattr__ = dict.__getitem__


def truth_from_moments(mu, Sigma):
    Lam = orc.inv(Sigma)
    Lam = 0.5 * (Lam + np.swapaxes(Lam, -1, -2))
    nu = np.einsum("rde,re->rd", Lam, mu)
    lnZ = orc.gauss_lnZ(Lam, nu)
    return Truth(Lambda=Lam, nu=nu, ln_beta=-lnZ, mu=mu, Sigma=Sigma)


def mk_factor(kind, rng, R, D, kappa=None, integer=False):
    """returns (object, Truth)."""
    L = lib()
    # optional constructor arguments are omitted now and then (documented defaults: zeros / ones)
    omit = rng.random(3) < 0.15
    if kind == "general":
        Lam = gen.psd_batch(rng, R, D)
        nu = np.zeros((R, D)) if omit[0] else gen.vec(rng, R, D)
        lb = np.zeros(R) if omit[1] else gen.vec(rng, R)
        kw = {"Lambda": J(Lam)}
        if not omit[0]:
            kw["nu"] = J(nu)
        if not omit[1]:
            kw["ln_beta"] = J(lb)
        obj = L.factor.ConjugateFactor(**kw)
        return obj, Truth(Lambda=Lam, nu=nu, ln_beta=lb)
    if kind == "rank1":
        v = gen.vec(rng, R, D)
        g = np.ones(R) if omit[2] else rng.uniform(0.1, 2.0, R)
        if gen.HOSTILE_SPECIAL and not omit[2] and rng.random() < 0.08:
            g[int(rng.integers(0, R))] = 0.0  # a legal degenerate rank-one factor: exp(nu'x + c)
        nu = np.zeros((R, D)) if omit[0] else gen.vec(rng, R, D)
        lb = np.zeros(R) if omit[1] else gen.vec(rng, R)
        kw = {"v": J(v)}
        if not omit[2]:
            kw["g"] = J(g)
        if not omit[0]:
            kw["nu"] = J(nu)
        if not omit[1]:
            kw["ln_beta"] = J(lb)
        obj = L.factor.OneRankFactor(**kw)
        Lam = g[:, None, None] * v[:, :, None] * v[:, None, :]
        return obj, Truth(Lambda=Lam, nu=nu, ln_beta=lb, v=v, g=g)
    if kind == "linear":
        nu = gen.vec(rng, R, D)
        lb = np.zeros(R) if omit[1] else gen.vec(rng, R)
        kw = {"nu": J(nu)}
        if not omit[1]:
            kw["ln_beta"] = J(lb)
        obj = L.factor.LinearFactor(**kw)
        return obj, Truth(Lambda=np.zeros((R, D, D)), nu=nu, ln_beta=lb)
    if kind == "constant":
        lb = gen.vec(rng, R)
        obj = L.factor.ConstantFactor(ln_beta=J(lb), num_dim=D)
        return obj, Truth(Lambda=np.zeros((R, D, D)), nu=np.zeros((R, D)), ln_beta=lb)
    return mk_measure(kind, rng, R, D, kappa=kappa)


def mk_measure(kind, rng, R, D, kappa=None, scale=None):
    L = lib()
    diag = kind.startswith("diag")
    if kind in ("measure", "diag_measure"):
        Lam = gen.spd_batch(rng, R, D, kappa, scale, diag=diag)
        omit = rng.random(2) < 0.15
        if gen.HOSTILE_SCALE or gen.HOSTILE_MEAN:
            # information vector of a mean drawn on the scale of the standard deviations
            nu0 = np.einsum("rde,re->rd", Lam, gen.mean_vec(rng, R, D, orc.inv(Lam)))
        else:
            nu0 = gen.vec(rng, R, D)
        nu = np.zeros((R, D)) if omit[0] else nu0
        lb = np.zeros(R) if omit[1] else gen.vec(rng, R)
        cls = L.measure.GaussianDiagMeasure if diag else L.measure.GaussianMeasure
        kw = {"Lambda": J(Lam)}
        if not omit[0]:
            kw["nu"] = J(nu)
        if not omit[1]:
            kw["ln_beta"] = J(lb)
        obj = cls(**kw)
        mu, Sig = orc.moments_from_natural(Lam, nu)
        return obj, Truth(Lambda=Lam, nu=nu, ln_beta=lb, mu=mu, Sigma=Sig)
    if kind in ("pdf", "diag_pdf"):
        Sig = gen.spd_batch(rng, R, D, kappa, scale, diag=diag)
        mu = gen.mean_vec(rng, R, D, Sig)
        cls = L.pdf.GaussianDiagPDF if diag else L.pdf.GaussianPDF
        # every accepted constructor argument combination is a legitimate way to build it
        how = int(rng.integers(0, 3))
        kw = {"Sigma": J(Sig), "mu": J(mu)}
        if how >= 1:
            kw["Lambda"] = J(orc.inv(Sig))
        if how == 2:
            kw["ln_det_Sigma"] = J(orc.slogdet(Sig))
        obj = cls(**kw)
        return obj, truth_from_moments(mu, Sig)
    raise KeyError(kind)


def mk_pdf(rng, R, D, kappa=None, scale=None, diag=False):
    return mk_measure("diag_pdf" if diag else "pdf", rng, R, D, kappa, scale)


def pdf_via_update(rng, t, diag, warm=None):
    """a density with the parameters of truth t that was *another* density first, was used (warm
    is called on it: the check passes the very operations it is going to judge), and was then
    overwritten row by row with update(). Must behave exactly like a fresh density N(t.mu, t.Sigma)."""
    L = lib()
    R, D = t.mu.shape
    cls = L.pdf.GaussianDiagPDF if diag else L.pdf.GaussianPDF
    with gen.calm():
        other, _ = mk_pdf(rng, R, D, kappa=10.0, diag=diag)
    if warm is not None:
        try:
            warm(other)
        except Exception:
            pass
    target = cls(Sigma=J(t.Sigma), mu=J(t.mu))
    order = rng.permutation(R)
    k = int(rng.integers(1, R + 1))
    other.update(JI_np(order[:k]), target.slice(JI_np(order[:k])))
    if k < R:
        other.update(JI_np(order[k:] - R), target.slice(JI_np(order[k:])))  # negative indices
    return other


def JI_np(a):
    return np.asarray(a, dtype=np.int32)


COND_KINDS = ("full", "diag", "identity", "identity_diag", "nn")


def warm_conditional(c, rng, Dy, Dx, kw):
    """use a conditional the way a caller would before its covariance is replaced by
    update_Sigma: every public method once (errors are the business of the checks, not of the
    warm-up)."""
    try:
        p0, _ = mk_pdf(rng, 1, Dx, kappa=10.0)
        q0, _ = mk_pdf(rng, 1, Dy + Dx, kappa=10.0)
    except Exception:
        return
    x0 = J(gen.vec(rng, 2, Dx))
    calls = [
        lambda: c.set_y(J(gen.vec(rng, 1 if c.R == 1 else c.R, Dy)), **kw),
        lambda: c.set_y(J(gen.vec(rng, 4 if c.R == 1 else c.R, Dy)), **kw),
        lambda: (c.condition_on_x_u(x0, **kw) if kw else c.condition_on_x(x0)),
        lambda: c.affine_joint_transformation(p0, **kw),
        lambda: c.affine_marginal_transformation(p0, **kw),
        lambda: c.affine_conditional_transformation(p0, **kw),
        lambda: c.conditional_entropy(p0, **kw),
        lambda: (None if kw else c.mutual_information(p0)),
        lambda: c.integrate_log_conditional(q0, **kw),
        lambda: c.integrate_log_conditional_y(p0, y=J(gen.vec(rng, 1, Dy)), **kw),
    ]
    for f in calls:
        try:
            f()
        except Exception:
            pass


def _history_cov(rng, Sig, diag):
    """the covariance an object carries before update_Sigma(Sig): either unrelated, or only a few
    parts in a million away from the final one (an update must never be skipped as 'no change')."""
    if rng.random() < 0.3:
        return Sig * (1.0 + 4e-6)
    return gen.spd_batch(rng, Sig.shape[0], Sig.shape[1], 10.0, diag=diag)


def _cov_args(rng, Sig):
    """a conditional may be given its covariance, its precision, or both with the log-determinant:
    all three are accepted constructor argument combinations and must give the same object."""
    how = int(rng.integers(0, 4))
    if how == 0:
        return {"Sigma": J(Sig)}
    if how == 1:
        return {"Lambda": J(orc.inv(Sig))}
    if how == 3:  # covariance and precision known, the log-determinant left to the constructor
        return {"Sigma": J(Sig), "Lambda": J(orc.inv(Sig))}
    return {"Sigma": J(Sig), "Lambda": J(orc.inv(Sig)), "ln_det_Sigma": J(orc.slogdet(Sig))}


def mk_conditional(kind, rng, R, Dy, Dx, kappa=None, zero_M=False, Du=2, u_fixed=None):
    """linear-Gaussian conditional p(y|x) = N(Mx+b, Sigma). returns (obj, Truth, call_kw).
    call_kw holds the control variable for the NN-controlled class."""
    L = lib()
    C = L.conditional
    kw = {}
    if kind in ("identity", "identity_diag"):
        Dx = Dy
        Sig = gen.spd_batch(rng, R, Dy, kappa, diag=(kind == "identity_diag"))
        cls = C.ConditionalIdentityGaussianPDF if kind == "identity" else \
            C.ConditionalIdentityDiagGaussianPDF
        if rng.random() < 0.25:
            S0 = _history_cov(rng, Sig, kind == "identity_diag")
            obj = cls(**_cov_args(rng, S0))
            warm_conditional(obj, rng, Dy, Dy, {})
            obj.update_Sigma(J(Sig))
        else:
            obj = cls(**_cov_args(rng, Sig))
        M = np.tile(np.eye(Dy)[None], (R, 1, 1))
        b = np.zeros((R, Dy))
        return obj, Truth(M=M, b=b, Sigma=Sig), kw
    if kind in ("full", "diag"):
        Sig = gen.spd_batch(rng, R, Dy, kappa, diag=(kind == "diag"))
        M = gen.lin_map(rng, R, Dy, Dx, zero=zero_M, special=True)
        opt = rng.random(3)
        if opt[0] < 0.1 and min(Dy, Dx) > 1 and not zero_M:
            # a rank-deficient (but legal) mean map: drop the smallest singular direction
            U, sv, Vt = np.linalg.svd(M, full_matrices=False)
            sv[:, -1] = 0.0
            M = np.einsum("rak,rk,rkb->rab", U, sv, Vt)
        b_omitted = opt[1] < 0.15
        b = np.zeros((R, Dy)) if b_omitted else gen.vec(rng, R, Dy)
        cls = C.ConditionalGaussianPDF if kind == "full" else C.ConditionalGaussianDiagPDF
        mkw = {"M": J(M)}
        if not b_omitted:
            mkw["b"] = J(b)
        if opt[2] < 0.25:
            # history: built with another noise covariance, used, then update_Sigma to the final one
            S0 = _history_cov(rng, Sig, kind == "diag")
            obj = cls(**mkw, **_cov_args(rng, S0))
            warm_conditional(obj, rng, Dy, Dx, {})
            obj.update_Sigma(J(Sig))
        else:
            obj = cls(**mkw, **_cov_args(rng, Sig))
        return obj, Truth(M=M, b=b, Sigma=Sig), kw
    if kind == "nn":
        # R is the number of control inputs; the object itself has one noise covariance
        from jax import numpy as jnp

        Sig = gen.spd_batch(rng, 1, Dy, kappa)
        Wc = gen.vec(rng, Du, Dy * (Dx + 1), scale=0.7)
        bc = gen.vec(rng, Dy * (Dx + 1), scale=0.5)
        Wj, bj = J(Wc), J(bc)

        def control_func(u):
            return jnp.tanh(u @ Wj) + bj

        u = gen.vec(rng, R, Du)
        if gen.HOSTILE_SPECIAL and rng.random() < 0.5:
            u = np.ones((R, Du))
        if u_fixed is not None:
            u = np.asarray(u_fixed, dtype=float).copy()  # the same constant control in many objects of one process
        out = np.tanh(u @ Wc) + bc
        M = out[:, : Dy * Dx].reshape(R, Dy, Dx)
        b = out[:, Dy * Dx:]
        kw = {"u": J(u)}
        if rng.random() < 0.25:
            # history: used with this very control input, then update_Sigma to the final noise
            S0 = _history_cov(rng, Sig, False)
            obj = C.NNControlGaussianConditional(Sigma=J(S0), num_cond_dim=Dx, num_control_dim=Du,
                                                 control_func=control_func)
            if R == 1:
                warm_conditional(obj, rng, Dy, Dx, kw)
            else:
                try:
                    obj.set_control_variable(kw["u"])
                    obj.set_y(J(gen.vec(rng, R, Dy)), **kw)
                except Exception:
                    pass
            obj.update_Sigma(J(Sig))
        else:
            obj = C.NNControlGaussianConditional(Sigma=J(Sig), num_cond_dim=Dx,
                                                 num_control_dim=Du, control_func=control_func)
        def net(u_):  # the control network in NumPy: (M(u), b(u)) for any control input
            o_ = np.tanh(np.asarray(u_) @ Wc) + bc
            return o_[:, : Dy * Dx].reshape(-1, Dy, Dx), o_[:, Dy * Dx:]

        return obj, Truth(M=M, b=b, Sigma=np.tile(Sig, (R, 1, 1)), net=net, Du=Du), kw
    raise KeyError(kind)


APPROX_KINDS = ("lrbf", "lsem", "het_exp", "het_cosh", "het_step", "het_relu")
HET_KINDS = ("het_exp", "het_cosh", "het_step", "het_relu")


def mk_approx(kind, rng, Dy, Dx, Dk, Da=None, wscale=0.6, kappa=None, zero_w=False, yscale=1.0,
              A_kappa=None):
    """approximate conditionals. returns (obj, Truth). In the special-value regime about half of
    the objects come with a *bystander*: a second live object of the same class and shapes with
    other parameters, built right after the first and used first (Truth.bystander: checks may
    also drive it with their own operands). Objects must not see each other."""
    obj, t = _mk_approx(kind, rng, Dy, Dx, Dk, Da, wscale, kappa, zero_w, yscale, A_kappa)
    t["bystander"] = None
    if gen.LIVE_PEERS and rng.random() < 0.5:
        sub = np.random.default_rng(int(rng.integers(0, 2 ** 31)))
        try:
            with gen.calm():
                by, _ = _mk_approx(kind, sub, Dy, Dx, Dk, Da, wscale, kappa, False, yscale, None)
                p0, _ = mk_pdf(sub, 1, Dx, kappa=10.0, scale=0.5)
                by.affine_marginal_transformation(p0)
                if kind in ("lrbf", "lsem"):
                    q0, _ = mk_pdf(sub, 1, Dy + Dx, kappa=10.0)
                    by.integrate_log_conditional(q0)
                else:
                    by.integrate_log_conditional_y(p0, y=J(sub.standard_normal((1, Dy))))
            t["bystander"] = by
        except Exception:
            pass
    return obj, t


def _mk_approx(kind, rng, Dy, Dx, Dk, Da=None, wscale=0.6, kappa=None, zero_w=False, yscale=1.0,
               A_kappa=None):
    L = lib()
    A_ = L.approx
    if kind in ("lrbf", "lsem"):
        Sig = gen.spd_batch(rng, 1, Dy, kappa)
        M = gen.vec(rng, 1, Dy, Dx + Dk, scale=0.8)
        b = gen.vec(rng, 1, Dy)
        hist = rng.random(2) < 0.25  # [update_Sigma history, update_phi history]
        S_first = gen.spd_batch(rng, 1, Dy, 10.0) if hist[0] else Sig
        if kind == "lrbf":
            centers = gen.vec(rng, Dk, Dx, scale=1.0)
            ls = rng.uniform(0.7, 2.0, (Dk, Dx))
            c0 = gen.vec(rng, Dk, Dx, scale=1.0) if hist[1] else centers
            l0 = rng.uniform(0.7, 2.0, (Dk, Dx)) if hist[1] else ls
            obj = A_.LRBFGaussianConditional(M=J(M), b=J(b), mu=J(c0), length_scale=J(l0),
                                             Sigma=J(S_first))
            t = Truth(M=M, b=b, Sigma=Sig, centers=centers, length_scale=ls, Dk=Dk)
        else:
            W = gen.vec(rng, Dk, Dx + 1, scale=wscale)
            W[:, 0] = rng.uniform(0.3, 1.2, Dk) * rng.choice([-1.0, 1.0], Dk)  # non-zero offsets
            if gen.HOSTILE_SPECIAL and rng.random() < 0.08:
                W[int(rng.integers(0, Dk)), 1:] = 0.0  # a bias-only unit: constant feature
            W0 = W.copy()
            if hist[1]:
                W0 = gen.vec(rng, Dk, Dx + 1, scale=wscale)
            obj = A_.LSEMGaussianConditional(M=J(M), b=J(b), W=J(W0), Sigma=J(S_first))
            t = Truth(M=M, b=b, Sigma=Sig, W=W, Dk=Dk)
        if hist.any():
            # used first (moment matching and expected log-densities), then changed in place
            try:
                with gen.calm():
                    p0, _ = mk_pdf(rng, 1, Dx, kappa=10.0, scale=0.5)
                    q0, _ = mk_pdf(rng, 1, Dy + Dx, kappa=10.0, scale=0.5)
                obj.affine_joint_transformation(p0)
                obj.affine_conditional_transformation(p0)
                obj.integrate_log_conditional(q0)
                obj.integrate_log_conditional_y(p0, y=J(gen.vec(rng, 1, Dy)))
            except Exception:
                pass
            if hist[0]:
                obj.update_Sigma(J(Sig))
            if hist[1]:
                if kind == "lrbf":
                    obj.mu = J(t.centers)
                    obj.length_scale = J(t.length_scale)
                else:
                    obj.w0 = J(t.W[:, 0])
                    obj.W = J(t.W[:, 1:])
                obj.update_phi()
        return obj, t
    cls = {"het_exp": A_.HeteroscedasticExpConditional,
           "het_cosh": A_.HeteroscedasticCoshM1Conditional,
           "het_step": A_.HeteroscedasticHeavisideConditional,
           "het_relu": A_.HeteroscedasticReLUConditional}[kind]
    Da = Da or Dy
    # A with bounded singular values so that AA' stays inside the domain guard
    # yscale: the unit in which y is measured (A, M, b scale with it; the noise weights W do not)
    if A_kappa is None:
        A = gen.lin_map(rng, 1, Dy, Da, smin=0.5, smax=2.0) * yscale
    else:
        # homoscedastic covariance AA' with a prescribed condition number (nearly collinear rows)
        k = min(Dy, Da)
        sv = np.exp(np.linspace(0.0, 0.5 * np.log(A_kappa), k)) / A_kappa ** 0.25
        A = ((gen.orth(rng, Dy)[:, :k] * sv) @ gen.orth(rng, Da)[:, :k].T)[None] * yscale
    M = gen.lin_map(rng, 1, Dy, Dx, special=True) * yscale
    b = gen.vec(rng, 1, Dy) * yscale
    # (not gen.vec: exactly zero weights are requested explicitly with zero_w - the step and
    # rectified links divide by the weight)
    W = rng.standard_normal((Dk, Dx + 1)) * wscale
    W[:, 0] = rng.uniform(0.2, 0.8, Dk) * rng.choice([-1.0, 1.0], Dk)
    if zero_w:
        W[:, 1:] = 0.0
    obj = cls(M=J(M), b=J(b), A=J(A), W=J(W))
    return obj, Truth(M=M, b=b, A=A, W=W, Dk=Dk, Da=Da, kind=kind)


def het_link(kind, h):
    if kind == "het_exp":
        return np.exp(h)
    if kind == "het_cosh":
        return np.cosh(h) - 1.0
    if kind == "het_step":
        return (h >= 0).astype(float)
    if kind == "het_relu":
        return np.maximum(h, 0.0)
    raise KeyError(kind)


def het_cov(t, x):
    """oracle covariance AA' + A_k diag(link(Wx+w0)) A_k' at points x [N,Dx] -> [N,Dy,Dy]."""
    A = t.A[0]
    h = x @ t.W[:, 1:].T + t.W[:, 0][None]
    d = het_link(t.kind, h)  # N Dk
    Ak = A[:, : t.Dk]
    return (A @ A.T)[None] + np.einsum("ik,nk,jk->nij", Ak, d, Ak)


def joint_truth(tc, tp):
    """all (r_cond, r_x) combinations in the documented layout r_cond*R_x + r_x.
    returns Truth(mu_xy, Sigma_xy, mu_y, Sigma_y, M, b, Sigma_c, mu_x, Sigma_x) with leading
    axis R_cond*R_x."""
    Rc, Dy, Dx = tc.M.shape
    Rx = tp.mu.shape[0]
    M = np.repeat(tc.M, Rx, axis=0)
    b = np.repeat(tc.b, Rx, axis=0)
    Sc = np.repeat(tc.Sigma, Rx, axis=0)
    mux = np.tile(tp.mu, (Rc, 1))
    Sx = np.tile(tp.Sigma, (Rc, 1, 1))
    muy = np.einsum("rab,rb->ra", M, mux) + b
    C = np.einsum("rab,rbc->rac", M, Sx)  # cov(y, x)
    Sy = Sc + np.einsum("rab,rcb->rac", C, M)
    Sy = 0.5 * (Sy + np.swapaxes(Sy, 1, 2))
    Sxy = np.concatenate([np.concatenate([Sx, np.swapaxes(C, 1, 2)], axis=2),
                          np.concatenate([C, Sy], axis=2)], axis=1)
    return Truth(mu_xy=np.concatenate([mux, muy], axis=1), Sigma_xy=Sxy, mu_y=muy, Sigma_y=Sy,
                 M=M, b=b, Sigma_c=Sc, mu_x=mux, Sigma_x=Sx, C=C)
