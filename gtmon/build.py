"""Builders: library objects together with their NumPy ground truth.

Ground truth is what the *generator* chose (Lambda, nu, ln_beta or mu, Sigma, or M, b,
Sigma), never read back from the library object.
"""
import numpy as np

from . import gen
from . import oracles as orc
from .gen import J


def lib():
    from gaussian_toolbox import (approximate_conditional, conditional, factor, measure,
                                  pdf)

    class NS:
        pass

    ns = NS()
    ns.factor, ns.measure, ns.pdf, ns.conditional, ns.approx = (
        factor, measure, pdf, conditional, approximate_conditional)
    return ns


FACTOR_KINDS = ("general", "rank1", "linear", "constant", "measure", "pdf", "diag_measure",
                "diag_pdf")
MEASURE_KINDS = ("measure", "pdf", "diag_measure", "diag_pdf")


class Truth(dict):
    """dict with attribute access: Lambda, nu, ln_beta (+ mu, Sigma when PD)."""
    __getattr__ = dict.__getitem__


def truth_from_moments(mu, Sigma):
    Lam = orc.inv(Sigma)
    Lam = 0.5 * (Lam + np.swapaxes(Lam, -1, -2))
    nu = np.einsum("rde,re->rd", Lam, mu)
    lnZ = orc.gauss_lnZ(Lam, nu)
    return Truth(Lambda=Lam, nu=nu, ln_beta=-lnZ, mu=mu, Sigma=Sigma)


def mk_factor(kind, rng, R, D, kappa=None, integer=False):
    """returns (object, Truth)."""
    L = lib()
    if kind == "general":
        Lam = gen.psd_batch(rng, R, D)
        nu = gen.vec(rng, R, D)
        lb = gen.vec(rng, R)
        obj = L.factor.ConjugateFactor(Lambda=J(Lam), nu=J(nu), ln_beta=J(lb))
        return obj, Truth(Lambda=Lam, nu=nu, ln_beta=lb)
    if kind == "rank1":
        v = gen.vec(rng, R, D)
        g = rng.uniform(0.1, 2.0, R)
        nu = gen.vec(rng, R, D)
        lb = gen.vec(rng, R)
        obj = L.factor.OneRankFactor(v=J(v), g=J(g), nu=J(nu), ln_beta=J(lb))
        Lam = g[:, None, None] * v[:, :, None] * v[:, None, :]
        return obj, Truth(Lambda=Lam, nu=nu, ln_beta=lb, v=v, g=g)
    if kind == "linear":
        nu = gen.vec(rng, R, D)
        lb = gen.vec(rng, R)
        obj = L.factor.LinearFactor(nu=J(nu), ln_beta=J(lb))
        return obj, Truth(Lambda=np.zeros((R, D, D)), nu=nu, ln_beta=lb)
    if kind == "constant":
        lb = gen.vec(rng, R)
        obj = L.factor.ConstantFactor(ln_beta=J(lb), num_dim=D)
        return obj, Truth(Lambda=np.zeros((R, D, D)), nu=np.zeros((R, D)), ln_beta=lb)
    return mk_measure(kind, rng, R, D, kappa=kappa)


def mk_measure(kind, rng, R, D, kappa=None, scale=None):
    L = lib()
    diag = kind.startswith("diag")
    if kind in ("measure", "diag_measure"):
        Lam = gen.spd_batch(rng, R, D, kappa, scale, diag=diag)
        nu = gen.vec(rng, R, D)
        lb = gen.vec(rng, R)
        cls = L.measure.GaussianDiagMeasure if diag else L.measure.GaussianMeasure
        obj = cls(Lambda=J(Lam), nu=J(nu), ln_beta=J(lb))
        mu, Sig = orc.moments_from_natural(Lam, nu)
        return obj, Truth(Lambda=Lam, nu=nu, ln_beta=lb, mu=mu, Sigma=Sig)
    if kind in ("pdf", "diag_pdf"):
        Sig = gen.spd_batch(rng, R, D, kappa, scale, diag=diag)
        mu = gen.vec(rng, R, D)
        cls = L.pdf.GaussianDiagPDF if diag else L.pdf.GaussianPDF
        obj = cls(Sigma=J(Sig), mu=J(mu))
        return obj, truth_from_moments(mu, Sig)
    raise KeyError(kind)


def mk_pdf(rng, R, D, kappa=None, scale=None, diag=False):
    return mk_measure("diag_pdf" if diag else "pdf", rng, R, D, kappa, scale)


COND_KINDS = ("full", "diag", "identity", "identity_diag", "nn")


def mk_conditional(kind, rng, R, Dy, Dx, kappa=None, zero_M=False, Du=2):
    """linear-Gaussian conditional p(y|x) = N(Mx+b, Sigma). returns (obj, Truth, call_kw).
    call_kw holds the control variable for the NN-controlled class."""
    L = lib()
    C = L.conditional
    kw = {}
    if kind in ("identity", "identity_diag"):
        Dx = Dy
        Sig = gen.spd_batch(rng, R, Dy, kappa, diag=(kind == "identity_diag"))
        cls = C.ConditionalIdentityGaussianPDF if kind == "identity" else \
            C.ConditionalIdentityDiagGaussianPDF
        obj = cls(Sigma=J(Sig))
        M = np.tile(np.eye(Dy)[None], (R, 1, 1))
        b = np.zeros((R, Dy))
        return obj, Truth(M=M, b=b, Sigma=Sig), kw
    if kind in ("full", "diag"):
        Sig = gen.spd_batch(rng, R, Dy, kappa, diag=(kind == "diag"))
        M = gen.lin_map(rng, R, Dy, Dx, zero=zero_M)
        b = gen.vec(rng, R, Dy)
        cls = C.ConditionalGaussianPDF if kind == "full" else C.ConditionalGaussianDiagPDF
        obj = cls(M=J(M), b=J(b), Sigma=J(Sig))
        return obj, Truth(M=M, b=b, Sigma=Sig), kw
    if kind == "nn":
        # R is the number of control inputs; the object itself has one noise covariance
        from jax import numpy as jnp

        Sig = gen.spd_batch(rng, 1, Dy, kappa)
        Wc = gen.vec(rng, Du, Dy * (Dx + 1), scale=0.7)
        bc = gen.vec(rng, Dy * (Dx + 1), scale=0.5)
        Wj, bj = J(Wc), J(bc)

        def control_func(u):
            return jnp.tanh(u @ Wj) + bj

        obj = C.NNControlGaussianConditional(Sigma=J(Sig), num_cond_dim=Dx, num_control_dim=Du,
                                             control_func=control_func)
        u = gen.vec(rng, R, Du)
        out = np.tanh(u @ Wc) + bc
        M = out[:, : Dy * Dx].reshape(R, Dy, Dx)
        b = out[:, Dy * Dx:]
        kw = {"u": J(u)}
        return obj, Truth(M=M, b=b, Sigma=np.tile(Sig, (R, 1, 1))), kw
    raise KeyError(kind)
