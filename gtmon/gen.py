"""Seeded input generators with the domain guard of DESIGN.md section 3.

All generators return NumPy float64 arrays (the oracle's ground truth); `J` converts
to jax arrays when the library is called.
"""
import numpy as np

KAPPAS = (1.0, 10.0, 1e2, 1e3, 1e4)
KAPPA_MAX = 1e4
# hostile value regimes, switched on per check by the worker from the property module's HOSTILE
# tuple: "scale" = overall scales far from one (a condition number says nothing about absolute
# scale: absolute jitters and thresholds only show there), "mean" = means 1e4..1e5 standard
# deviations away from the origin (cancellation in formulas that go through second moments)
# "special" = exactly representable special values that continuous draws never hit: an offset or
# mean that is exactly zero, one zero row or column of a map, two identical components in a batch
# (value-dependent branches and shortcuts only show there)
HOSTILE_SCALE = False
HOSTILE_MEAN = False
HOSTILE_SPECIAL = False
# builders add live peer objects (same class and shapes, other parameters, used first): process-
# level and class-level state shared between objects only shows then. Not a value regime: calm()
# leaves it alone.
LIVE_PEERS = False
EXTREME_SCALES = (1e-6, 1e-4, 1e4, 1e6)


class calm:
    """context manager: the hostile *magnitude* regimes (scale, mean) off, for sub-checks whose
    objects have an intrinsic O(1) length scale - kernels, link functions, quadrature proposals.
    Special values (exact zeros, identical components, ...) are not a matter of magnitude and
    stay as they are."""

    def __enter__(self):
        global HOSTILE_SCALE, HOSTILE_MEAN
        self.saved = (HOSTILE_SCALE, HOSTILE_MEAN)
        HOSTILE_SCALE = HOSTILE_MEAN = False

    def __exit__(self, *a):
        global HOSTILE_SCALE, HOSTILE_MEAN
        HOSTILE_SCALE, HOSTILE_MEAN = self.saved


def J(a):
    from jax import numpy as jnp

    return jnp.asarray(np.asarray(a, dtype=float))


def JI(a):
    from jax import numpy as jnp

    return jnp.asarray(np.asarray(a), dtype=jnp.int32)


def rng_for(seed, *key):
    """independent stream per (seed, key...) - stable across processes."""
    import zlib

    h = zlib.crc32(repr(key).encode())
    return np.random.default_rng([int(seed) & 0xFFFFFFFF, h])


def orth(rng, D):
    q, r = np.linalg.qr(rng.standard_normal((D, D)))
    return q * np.sign(np.diag(r))


def spd(rng, D, kappa=None, scale=None, diag=False):
    """one SPD matrix with prescribed condition number and overall scale."""
    if kappa is None:
        kappa = float(rng.choice(KAPPAS[:4]))
    if scale is None:
        scale = 10.0 ** rng.uniform(-1, 1)
        if HOSTILE_SCALE and rng.random() < 0.2:
            scale = float(rng.choice(EXTREME_SCALES))
    if HOSTILE_SPECIAL and D > 1 and rng.random() < 0.06:
        return float(scale) * np.eye(D)  # isotropic: exactly repeated eigenvalues
    if D == 1:
        lam = np.array([1.0])
    else:
        lam = np.exp(rng.uniform(0, np.log(kappa), D))
        lam[0], lam[-1] = 1.0, kappa
        rng.shuffle(lam)
    lam = lam * scale / np.sqrt(kappa)
    if diag:
        return np.diag(lam)
    Q = orth(rng, D)
    S = (Q * lam) @ Q.T
    return 0.5 * (S + S.T)


def spd_batch(rng, R, D, kappa=None, scale=None, diag=False):
    out = np.stack([spd(rng, D, kappa, scale, diag) for _ in range(R)])
    if HOSTILE_SPECIAL and R >= 2 and rng.random() < 0.08:
        out[-1] = out[0]  # two identical components
    return out


def psd_batch(rng, R, D, rank=None):
    """positive semi-definite (singular unless rank == D) precision for factors."""
    out = []
    for _ in range(R):
        r = rank if rank is not None else int(rng.integers(0, D + 1))
        V = rng.standard_normal((D, r)) * rng.uniform(0.3, 1.5)
        out.append(V @ V.T)
    return np.stack(out)


def vec(rng, *shape, scale=1.0):
    v = rng.standard_normal(shape) * scale
    if HOSTILE_SPECIAL:
        u = rng.random()
        if u < 0.06:
            v = np.zeros(shape)  # exactly zero offset / information vector
        elif u < 0.10 and len(shape) >= 2 and shape[0] >= 2:
            v[-1] = v[0]  # identical rows
    return v


def mean_vec(rng, R, D, Sigma):
    """a mean vector: O(sd) normally; in the hostile regime sometimes 1e4..1e5 sd from the origin."""
    sd = np.sqrt(np.max(np.diagonal(Sigma, axis1=-1, axis2=-2), axis=-1))[:, None]
    if HOSTILE_SPECIAL and rng.random() < 0.06:
        return np.zeros((R, D))
    if HOSTILE_MEAN and rng.random() < 0.15:
        return rng.standard_normal((R, D)) * sd * 10.0 ** rng.uniform(4, 5)
    if HOSTILE_SCALE:
        return rng.standard_normal((R, D)) * sd * 2.0
    return rng.standard_normal((R, D))


def lin_map(rng, R, Dy, Dx, smin=0.1, smax=3.0, zero=False, special=False):
    """maps with singular values in [smin, smax]. special: the map is a mean map (no rank
    requirement), so the special-value regime may zero one of its rows or columns."""
    if zero:
        return np.zeros((R, Dy, Dx))
    out = []
    for _ in range(R):
        k = min(Dy, Dx)
        U = orth(rng, Dy)[:, :k]
        V = orth(rng, Dx)[:, :k]
        s = np.exp(rng.uniform(np.log(smin), np.log(smax), k))
        out.append((U * s) @ V.T)
    out = np.stack(out)
    if special and HOSTILE_SPECIAL and Dy == Dx and rng.random() < 0.05:
        out[:] = np.eye(Dx)  # exactly the identity map (with whatever offset the caller draws)
    elif special and HOSTILE_SPECIAL and rng.random() < 0.06:
        if rng.random() < 0.5:
            out[:, int(rng.integers(0, Dy)), :] = 0.0  # one output ignores x entirely
        else:
            out[:, :, int(rng.integers(0, Dx))] = 0.0  # one input never observed
    return out


def cond(S):
    w = np.linalg.eigvalsh(0.5 * (S + np.swapaxes(S, -1, -2)))
    if np.any(w <= 0):
        return np.inf
    return float(np.max(w[..., -1] / w[..., 0]))


def in_domain(*mats, kmax=KAPPA_MAX):
    """every covariance / precision the oracle forms must be SPD with cond <= kmax."""
    for S in mats:
        S = np.asarray(S, dtype=float)
        if not np.all(np.isfinite(S)):
            return False
        if S.ndim == 2:
            S = S[None]
        if cond(S) > kmax:
            return False
    return True


def points(rng, N, mu, Sigma, far=True):
    """evaluation points: around the mean (within ~2 sd) plus, optionally, far ones."""
    mu = np.atleast_2d(mu)
    D = mu.shape[-1]
    S = np.atleast_3d(Sigma)
    if S.shape[-1] != D:
        S = np.asarray(Sigma).reshape(-1, D, D)
    sd = np.sqrt(np.max(np.diagonal(S, axis1=-1, axis2=-2)))
    c = mu[rng.integers(0, mu.shape[0], N)]
    x = c + rng.standard_normal((N, D)) * sd * 1.5
    if far and N >= 3:
        x[-1] = c[-1] + rng.standard_normal(D) * sd * 6.0
        x[-2] = 0.0
    return x


def index_arrays(rng, R):
    """hostile index arrays for slicing a batch of R components."""
    out = {"perm": rng.permutation(R)}
    out["single"] = np.array([int(rng.integers(0, R))])
    out["rep"] = rng.integers(0, R, size=R + 2)
    out["neg"] = -1 - rng.integers(0, R, size=max(1, R - 1))
    return out
