"""The repository's own tests as an additional workload for the online monitors.

The tests are executed in-process by pytest with the hooks already installed; their own
assertions are not what is judged (a failing test is only counted), the monitors are.
Objects a test constructs directly from hand-made arguments are the test's responsibility, so
monitor verdicts attributed to a constructor call at the API boundary are not judged here
(hooks.STATE.skip_ctor_boundary)."""
import os

from . import core, hooks

TEST_FILES = ["tests/test_factor.py", "tests/test_measure.py", "tests/test_pdf.py",
              "tests/test_conditional.py", "tests/test_approximate_conditional.py",
              "tests/experimental/test_truncated_measure.py"]


def cells(tier):
    if tier != "thorough":
        return []
    return [{"repo_tests": f, "group": ["repo_tests", f], "cost": 30.0} for f in TEST_FILES]


def run(cell, rec):
    import pytest

    path = os.path.join(core.REPO, cell["repo_tests"])
    rec.cell(["repo_tests", cell["repo_tests"]], True)
    hooks.STATE.skip_ctor_boundary = True
    before = sum(hooks.STATE.events.values())

    class Counter:
        passed = failed = 0

        def pytest_runtest_logreport(self, report):
            if report.when == "call":
                if report.passed:
                    Counter.passed += 1
                elif report.failed:
                    Counter.failed += 1

    try:
        cwd = os.getcwd()
        os.chdir(core.REPO)
        pytest.main([path, "-q", "-p", "no:cacheprovider", "-x", "--no-header", "-W",
                     "ignore"], plugins=[Counter()])
    finally:
        os.chdir(cwd)
        hooks.STATE.skip_ctor_boundary = False
    rec.count("repo_tests_passed", Counter.passed)
    rec.count("repo_tests_failed", Counter.failed)
    rec.count("repo_tests_boundary_events", sum(hooks.STATE.events.values()) - before)
